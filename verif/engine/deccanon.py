"""Load-time expansion of the repository's own decorators.

The engine summarises a function from its `def`; a decorator that carries behaviour (takes a lock around the call, reads and checks a
version byte before it, catches what it raises) would be invisible - in both directions: a harmless refactoring that moves a
`with self.lock:` into `@_with_lock` looks like a lost lock, and a harmful decorator looks like nothing at all. This pass rewrites

    def deco(fn):                      |   def factory(p, q):
        @wraps(fn)                     |       def deco(fn):
        def wrapper(x, *a, **k):       |           ...as on the left...
            PRE                        |       return deco
            return fn(x, *a, **k)      |
        return wrapper                 |   @factory(1, "n")
                                       |   def f(x, y): BODY
    @deco
    def f(x, y): BODY

into `def f(x, y): PRE; BODY` (the call in tail position: BODY takes the place of the `return fn(..)` statement, inside whatever `with` /
`try` / `if` of the wrapper it stands in), or, when the wrapper does something with the result, into
`def f(x, y): ..; r = f__undecorated(x, y); ..` next to `def f__undecorated(x, y): BODY`. A decorator that returns the function it was
given (after registering it somewhere) is dropped. Everything else stays on the function and is reported by rule RX.5 where a property's
anchor files are concerned: an un-followed decorator is an honest "cannot analyse", never a silent pass.
"""
import ast
import copy
from typing import Any, Dict, List, Optional, Set, Tuple

# decorators whose effect on the *body* of the function is nil, or which other passes / the indexer understand
BUILTIN = {"property", "classmethod", "staticmethod", "abstractmethod", "abc.abstractmethod", "wraps", "functools.wraps",
           "contextmanager", "contextlib.contextmanager", "dataclass", "dataclasses.dataclass", "overload", "typing.overload",
           "final", "typing.final", "no_type_check", "typing.no_type_check", "unique", "enum.unique", "total_ordering",
           "functools.total_ordering", "runtime_checkable", "typing.runtime_checkable"}


def dotted(n: ast.AST) -> Optional[str]:
    if isinstance(n, ast.Call):
        n = n.func
    parts: List[str] = []
    while isinstance(n, ast.Attribute):
        parts.append(n.attr)
        n = n.value
    if isinstance(n, ast.Name):
        parts.append(n.id)
        return ".".join(reversed(parts))
    return None


def _strip_doc(body: List[ast.stmt]) -> List[ast.stmt]:
    if body and isinstance(body[0], ast.Expr) and isinstance(body[0].value, ast.Constant) and isinstance(body[0].value.value, str):
        return body[1:]
    return body


def _simple(v: ast.AST) -> bool:
    return isinstance(v, (ast.Constant, ast.Name)) or (isinstance(v, ast.Attribute) and _simple(v.value)) or \
        (isinstance(v, ast.UnaryOp) and isinstance(v.operand, ast.Constant)) or \
        (isinstance(v, ast.Tuple) and all(_simple(e) for e in v.elts))


class _Subst(ast.NodeTransformer):
    def __init__(self, names: Dict[str, Any]):
        self.names = names

    def visit_Name(self, node: ast.Name) -> Any:
        r = self.names.get(node.id)
        if r is None:
            return node
        if isinstance(r, str):
            return ast.copy_location(ast.Name(id=r, ctx=node.ctx), node)
        if isinstance(node.ctx, ast.Load):
            return ast.copy_location(copy.deepcopy(r), node)
        return node

    def visit_arg(self, node: ast.arg) -> Any:
        r = self.names.get(node.arg)
        if isinstance(r, str):
            node.arg = r
        return node


def _own(fn: ast.AST):
    """nodes of a function, not those of functions / classes nested in it (lambdas are walked)"""
    stack = list(ast.iter_child_nodes(fn))
    while stack:
        n = stack.pop()
        yield n
        if isinstance(n, (ast.FunctionDef, ast.AsyncFunctionDef, ast.ClassDef)):
            continue
        stack.extend(ast.iter_child_nodes(n))


class Shape:
    def __init__(self, kind: str, wrapper: Optional[ast.FunctionDef], fnparam: str, subst: Dict[str, ast.AST], home: ast.Module):
        self.kind, self.wrapper, self.fnparam, self.subst, self.home = kind, wrapper, fnparam, subst, home


def _direct_shape(dec: ast.FunctionDef) -> Optional[Tuple[str, Optional[ast.FunctionDef], str]]:
    a = dec.args
    if len(a.args) != 1 or a.vararg or a.kwarg or a.kwonlyargs or a.posonlyargs or a.defaults:
        return None
    fnparam = a.args[0].arg
    body = _strip_doc(dec.body)
    if not body or not isinstance(body[-1], ast.Return) or not isinstance(body[-1].value, ast.Name):
        return None
    ret = body[-1].value.id
    if any(isinstance(n, ast.Return) for st in body[:-1] for n in _own(st) if not isinstance(st, ast.FunctionDef)):
        return None
    if ret == fnparam:
        # the function itself comes back: nothing in front may rebind it or change it
        for st in body[:-1]:
            if isinstance(st, (ast.FunctionDef, ast.ClassDef)):
                return None
            for n in ast.walk(st):
                if isinstance(n, ast.Name) and n.id == fnparam and isinstance(n.ctx, (ast.Store, ast.Del)):
                    return None
                if isinstance(n, ast.Attribute) and isinstance(n.ctx, ast.Store) and isinstance(n.value, ast.Name) and n.value.id == fnparam:
                    return None
        return "identity", None, fnparam
    inner = [st for st in body[:-1] if isinstance(st, ast.FunctionDef) and st.name == ret]
    if len(inner) != 1:
        return None
    w = inner[0]
    for d in w.decorator_list:
        if dotted(d) not in ("wraps", "functools.wraps"):
            return None
    # other statements of the decorator may not touch the wrapper or the function (w.attr = .. would be state on the function object)
    for st in body[:-1]:
        if st is w:
            continue
        if isinstance(st, (ast.FunctionDef, ast.ClassDef)):
            return None
        for n in ast.walk(st):
            if isinstance(n, ast.Name) and n.id in (ret, fnparam):
                return None
    return "wrapper", w, fnparam


def decorator_shape(dec: ast.FunctionDef, call: Optional[ast.Call], home: ast.Module) -> Optional[Shape]:
    if call is None:
        r = _direct_shape(dec)
        return Shape(r[0], r[1], r[2], {}, home) if r else None
    # a factory: parameters bound by the decorator expression, one inner decorator returned
    a = dec.args
    if a.vararg or a.kwarg or a.posonlyargs:
        return None
    params = [p.arg for p in a.args] + [p.arg for p in a.kwonlyargs]
    actual: Dict[str, ast.AST] = {}
    if len(call.args) > len(a.args) or any(isinstance(x, ast.Starred) for x in call.args):
        return None
    for p, v in zip(a.args, call.args):
        actual[p.arg] = v
    for k in call.keywords:
        if k.arg is None or k.arg not in params or k.arg in actual:
            return None
        actual[k.arg] = k.value
    defaults = dict(zip([p.arg for p in a.args][len(a.args) - len(a.defaults):], a.defaults))
    for p, dv in zip(a.kwonlyargs, a.kw_defaults):
        if dv is not None:
            defaults[p.arg] = dv
    for p in params:
        if p not in actual:
            if p not in defaults:
                return None
            actual[p] = defaults[p]
    if not all(_simple(v) for v in actual.values()):
        return None
    body = _strip_doc(dec.body)
    if len(body) != 2 or not isinstance(body[0], ast.FunctionDef) or not isinstance(body[1], ast.Return) \
            or not isinstance(body[1].value, ast.Name) or body[1].value.id != body[0].name or body[0].decorator_list:
        return None
    stored = {n.id for n in ast.walk(body[0]) if isinstance(n, ast.Name) and isinstance(n.ctx, ast.Store)}
    if stored & set(params):
        return None
    r = _direct_shape(body[0])
    if r is None:
        return None
    return Shape(r[0], r[1], r[2], actual, home)


def _tail_position(w: ast.FunctionDef, target: ast.stmt) -> bool:
    """is `target` a statement after which, on normal completion, nothing of the wrapper runs (so that a body falling off its end in
    its place ends the function as the `return` would have)? `finally` blocks run either way."""
    def last_in(block: List[ast.stmt]) -> bool:
        if not block:
            return False
        st = block[-1]
        if st is target:
            return True
        if isinstance(st, ast.With):
            return last_in(st.body)
        if isinstance(st, ast.If):
            return last_in(st.body) or last_in(st.orelse)
        if isinstance(st, ast.Try):
            if st.orelse:
                return False
            return last_in(st.body) or any(last_in(h.body) for h in st.handlers)
        return False
    return last_in(w.body)


def _replace_stmt(block: List[ast.stmt], target: ast.stmt, new: List[ast.stmt]) -> bool:
    for i, st in enumerate(block):
        if st is target:
            block[i:i + 1] = new
            return True
        for fld in ("body", "orelse", "finalbody"):
            sub = getattr(st, fld, None)
            if isinstance(sub, list) and sub and isinstance(sub[0], ast.stmt) and not isinstance(st, (ast.FunctionDef, ast.ClassDef)):
                if _replace_stmt(sub, target, new):
                    return True
        if isinstance(st, ast.Try):
            for h in st.handlers:
                if _replace_stmt(h.body, target, new):
                    return True
    return False


def _falls_through(body: List[ast.stmt]) -> bool:
    return not body or not isinstance(body[-1], (ast.Return, ast.Raise))


class Expansion:
    def __init__(self) -> None:
        self.new_defs: List[ast.stmt] = []
        self.needs: Set[str] = set()


def expand(fn: ast.FunctionDef, sh: Shape, owner: Optional[ast.ClassDef], outer_decs: List[str], serial: int) -> Optional[Expansion]:
    """rewrite fn in place; returns None (fn untouched) when the wrapper is not of a followed shape"""
    out = Expansion()
    if sh.kind == "identity":
        return out
    w = copy.deepcopy(sh.wrapper)
    assert w is not None
    w.decorator_list = []         # only functools.wraps (checked by _direct_shape)
    w.returns = None
    for a_ in w.args.args + ([w.args.vararg] if w.args.vararg else []) + ([w.args.kwarg] if w.args.kwarg else []):
        a_.annotation = None
    wa = w.args
    if wa.posonlyargs or wa.kwonlyargs or wa.defaults or wa.kw_defaults:
        return None
    xs = [p.arg for p in wa.args]
    va = wa.vararg.arg if wa.vararg else None
    kw = wa.kwarg.arg if wa.kwarg else None
    oa = fn.args
    if oa.posonlyargs:
        return None
    oparams = [p.arg for p in oa.args]
    if len(xs) > len(oparams) or (va is None and len(xs) != len(oparams)):
        return None
    if va is None and (oa.vararg or oa.kwonlyargs or oa.kwarg) and kw is None:
        return None
    if (va is None) != (kw is None) and (len(xs) != len(oparams) or oa.defaults or oa.kwonlyargs or oa.vararg or oa.kwarg):
        return None
    if va is None and oa.defaults:
        return None      # a wrapper with a fixed signature drops the defaults of the function it wraps
    # the calls of the wrapped function: exactly the wrapper's own parameters, in order
    calls: List[ast.Call] = []
    for n in ast.walk(w):
        if isinstance(n, ast.Call) and isinstance(n.func, ast.Name) and n.func.id == sh.fnparam:
            calls.append(n)
    if not calls:
        return None
    for c in calls:
        want = len(xs) + (1 if va else 0)
        if len(c.args) != want:
            return None
        for x, a_ in zip(xs, c.args):
            if not (isinstance(a_, ast.Name) and a_.id == x):
                return None
        if va and not (isinstance(c.args[-1], ast.Starred) and isinstance(c.args[-1].value, ast.Name) and c.args[-1].value.id == va):
            return None
        if kw:
            if len(c.keywords) != 1 or c.keywords[0].arg is not None or not (isinstance(c.keywords[0].value, ast.Name) and c.keywords[0].value.id == kw):
                return None
        elif c.keywords:
            return None
    call_ids = {id(c) for c in calls}
    call_parts = {id(x) for c in calls for x in ast.walk(c)}
    # no other use of the function object (but its name), of *args / **kwargs, no rebinding of the wrapper's parameters
    for n in ast.walk(w):
        if id(n) in call_parts and id(n) not in call_ids:
            continue
        if isinstance(n, ast.Name) and n.id in (va, kw) and n.id is not None:
            return None
        if isinstance(n, ast.Name) and n.id in xs and isinstance(n.ctx, (ast.Store, ast.Del)):
            return None
        if isinstance(n, (ast.Yield, ast.YieldFrom, ast.Await, ast.Global, ast.Nonlocal)):
            return None
    fn_name_uses = [n for n in ast.walk(w) if isinstance(n, ast.Name) and n.id == sh.fnparam and id(n) not in call_parts]
    attr_of = {id(n.value): n for n in ast.walk(w) if isinstance(n, ast.Attribute)}
    for u in fn_name_uses:
        at = attr_of.get(id(u))
        if at is None or at.attr not in ("__name__", "__qualname__"):
            return None
    if any(isinstance(n, (ast.Yield, ast.YieldFrom)) for n in _own(fn)):
        return None
    # names
    tag = "_d%d_" % serial
    w_locals = {n.id for n in _own(w) if isinstance(n, ast.Name) and isinstance(n.ctx, ast.Store)}
    for n in _own(w):
        if isinstance(n, ast.ExceptHandler) and n.name:
            w_locals.add(n.name)
    ren: Dict[str, Any] = {}
    for x, o in zip(xs, oparams):
        ren[x] = o
    for nm in w_locals:
        if nm not in ren:
            ren[nm] = tag + nm
    for p, v in sh.subst.items():
        if p not in ren:
            ren[p] = v

    class FnName(ast.NodeTransformer):
        def visit_Attribute(self, node: ast.Attribute) -> Any:
            if isinstance(node.value, ast.Name) and node.value.id == sh.fnparam and node.attr in ("__name__", "__qualname__"):
                return ast.copy_location(ast.Constant(value=fn.name), node)
            return self.generic_visit(node)

    class Handlers(ast.NodeTransformer):
        def visit_ExceptHandler(self, node: ast.ExceptHandler) -> Any:
            self.generic_visit(node)
            if node.name and isinstance(ren.get(node.name), str):
                node.name = ren[node.name]
            return node

    # find the tail call before renaming (identity of nodes)
    tail: Optional[ast.Return] = None
    if len(calls) == 1:
        for n in ast.walk(w):
            if isinstance(n, ast.Return) and n.value is calls[0]:
                tail = n
    wbody = _strip_doc(w.body)
    w.body = wbody
    orig_body = fn.body
    doc = orig_body[:1] if _strip_doc(orig_body) is not orig_body else []
    if tail is not None and _tail_position(w, tail):
        marker = ast.Pass()
        _replace_stmt(w.body, tail, [marker])
        w2 = Handlers().visit(_Subst(ren).visit(FnName().visit(w)))
        body = _strip_doc(orig_body) or [ast.Pass()]
        _replace_stmt(w2.body, marker, body)
        fn.body = doc + w2.body
    else:
        # keep the function under another name and call it
        und = fn.name + "__undecorated"
        keep = ast.FunctionDef(name=und, args=copy.deepcopy(fn.args), body=orig_body, decorator_list=[], returns=fn.returns, type_comment=None)
        ast.copy_location(keep, fn)
        pos = [ast.Name(id=p, ctx=ast.Load()) for p in oparams]
        star = [ast.Starred(value=ast.Name(id=oa.vararg.arg, ctx=ast.Load()), ctx=ast.Load())] if oa.vararg else []
        kws = [ast.keyword(arg=p.arg, value=ast.Name(id=p.arg, ctx=ast.Load())) for p in oa.kwonlyargs]
        if oa.kwarg:
            kws.append(ast.keyword(arg=None, value=ast.Name(id=oa.kwarg.arg, ctx=ast.Load())))
        if owner is None:
            func: ast.expr = ast.Name(id=und, ctx=ast.Load())
        elif "staticmethod" in outer_decs:
            keep.decorator_list = [ast.Name(id="staticmethod", ctx=ast.Load())]
            func = ast.Attribute(value=ast.Name(id=owner.name, ctx=ast.Load()), attr=und, ctx=ast.Load())
        else:
            if not pos or not xs:
                return None
            if "classmethod" in outer_decs:
                keep.decorator_list = [ast.Name(id="classmethod", ctx=ast.Load())]
            func = ast.Attribute(value=pos[0], attr=und, ctx=ast.Load())
            pos = pos[1:]
        w2 = Handlers().visit(_Subst(ren).visit(FnName().visit(w)))
        for n in ast.walk(w2):
            if isinstance(n, ast.Call) and isinstance(n.func, ast.Name) and n.func.id == sh.fnparam:
                n.func = copy.deepcopy(func)
                n.args = [copy.deepcopy(x) for x in pos + star]
                n.keywords = [copy.deepcopy(k) for k in kws]
        fn.body = doc + w2.body
        out.new_defs.append(keep)
    for st in fn.body:
        for n in ast.walk(st):
            if not hasattr(n, "lineno") and isinstance(n, (ast.stmt, ast.expr)):
                ast.copy_location(n, fn)
    ast.fix_missing_locations(fn)
    out.needs = {n.id for n in ast.walk(w) if isinstance(n, ast.Name) and isinstance(n.ctx, ast.Load)}
    return out


def _module_level_names(tree: ast.Module) -> Set[str]:
    from .gencanon import _module_level_names as f
    return f(tree)


def canon_decorators(trees: List[ast.Module]) -> Dict[str, str]:
    defs: Dict[str, List[Tuple[ast.FunctionDef, ast.Module]]] = {}
    for tree in trees:
        for st in tree.body:
            if isinstance(st, ast.FunctionDef):
                defs.setdefault(st.name, []).append((st, tree))
    done: Dict[str, str] = {}
    counts: Dict[str, int] = {}
    serial = 0
    for tree in trees:
        brought: Dict[str, Set[str]] = {}
        scopes: List[Tuple[List[ast.stmt], Optional[ast.ClassDef]]] = [(tree.body, None)]
        for n in ast.walk(tree):
            if isinstance(n, ast.ClassDef):
                scopes.append((n.body, n))
        for block, owner in scopes:
            i = 0
            while i < len(block):
                fn = block[i]
                i += 1
                if not isinstance(fn, ast.FunctionDef) or not fn.decorator_list:
                    continue
                while fn.decorator_list:
                    d = fn.decorator_list[-1]
                    nm = dotted(d)
                    if nm is None or nm in BUILTIN or nm not in defs or len(defs[nm]) != 1:
                        break
                    dec, home = defs[nm][0]
                    if dec is fn:
                        break
                    sh = decorator_shape(dec, d if isinstance(d, ast.Call) else None, home)
                    if sh is None:
                        break
                    serial += 1
                    outer = [dotted(x) or "" for x in fn.decorator_list[:-1]]
                    ex = expand(fn, sh, owner, outer, serial)
                    if ex is None:
                        break
                    fn.decorator_list.pop()
                    counts[nm] = counts.get(nm, 0) + 1
                    for k in ex.new_defs:
                        block.insert(i, k)
                        i += 1
                    if home is not tree:
                        brought.setdefault(getattr(home, "_modname", None) or "", set()).update(ex.needs & _module_level_names(home))
        if tree.body:
            here = _module_level_names(tree)
            for mod, names in brought.items():
                missing = sorted(x for x in names if x not in here)
                if mod and missing:
                    imp = ast.ImportFrom(module=mod, names=[ast.alias(name=x, asname=None) for x in missing], level=0)
                    ast.fix_missing_locations(ast.copy_location(imp, tree.body[0]))
                    tree.body.insert(0, imp)
    for nm, k in counts.items():
        sh0 = defs[nm][0][0]
        done[nm] = "expanded on %d function%s" % (k, "" if k == 1 else "s")
        del sh0
    return done


def unfollowed_decorators(tree: ast.Module) -> List[Tuple[str, str, int]]:
    """(function or class, decorator, line) for every decorator left on a definition that is neither a builtin one nor expanded"""
    out: List[Tuple[str, str, int]] = []
    for n in ast.walk(tree):
        if isinstance(n, (ast.FunctionDef, ast.AsyncFunctionDef, ast.ClassDef)):
            for d in n.decorator_list:
                nm = dotted(d) or ast.dump(d)[:40]
                base = nm
                if base in BUILTIN or base.endswith(".setter") or base.endswith(".getter") or base.endswith(".deleter"):
                    continue
                out.append((n.name, nm, getattr(d, "lineno", n.lineno)))
    return out
