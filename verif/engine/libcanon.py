"""Load-time canonicalisation of standard-library idioms into the comprehension / loop / attribute forms the summariser reads.

Every rewrite is an identity of the language or of the documented behaviour of the library function (for arguments that are not
half-consumed iterators; that premise is rule RX.3's):

    map(f, xs)                      -> (f(m) for m in xs)              map(f, xs, ys) -> (f(m, n) for (m, n) in zip(xs, ys))
    filter(p, xs) / filter(None,..) -> (m for m in xs if p(m))         itertools.filterfalse -> ... if not p(m)
    itertools.starmap(f, xs)        -> (f(*m) for m in xs)
    itertools.chain(a, b)           -> (m for it in (a, b) for m in it)    chain.from_iterable(xs) -> (m for it in xs for m in it)
    zip(itertools.repeat(c), xs)    -> ((c, m) for m in xs)            map(f, xs, repeat(c)) -> (f(m, c) for m in xs)
    islice(range(a, b), n)          -> range(a, min(a + n, b))         islice(x, a, None) / islice(x, n) on a plain name / attribute -> x[a:] / x[:n]
    for x in takewhile(p, xs): B    -> for x in xs: if not p(x): break; B
    operator.attrgetter("a")        -> lambda o: o.a     itemgetter(i) -> lambda o: o[i]     methodcaller("m", *a) -> lambda o: o.m(*a)
    (lambda o: E)(x)                -> E[x/o]            f(*(a, b))    -> f(a, b)
    NAME = slice(a, b); x[NAME]     -> x[a:b]            (module-level, class-level and `self.NAME` / `cls.NAME` constants)
    class E(Enum): A = <const>;  E.A.value -> <const>    (anywhere in the package, by the class's name)
    @dataclass class C: a: T; b: U = d; c: V = field(default_factory=f)   -> def __init__(self, a, b=d, c=<f()>): self.a = a; ...
    x = functools.reduce(f, xs, init)   -> x = init; for m in xs: x = f(x, m)
    [*a, b] / [a, *b]               -> list(a) + [b] / [a] + list(b)   (one starred element)
    dict(zip((k1, k2), (v1, v2)))   -> {k1: v1, k2: v2}
"""
from __future__ import annotations

import ast
import copy
from typing import Any, Dict, List, Optional, Set, Tuple

_ITER = {"starmap", "chain", "islice", "takewhile", "filterfalse", "repeat"}
_OPER = {"attrgetter", "itemgetter", "methodcaller"}


def _dotted(n: ast.AST) -> Optional[str]:
    parts = []
    while isinstance(n, ast.Attribute):
        parts.append(n.attr)
        n = n.value
    if isinstance(n, ast.Name):
        parts.append(n.id)
        return ".".join(reversed(parts))
    return None


class _Subst(ast.NodeTransformer):
    def __init__(self, mapping: Dict[str, ast.AST]):
        self.mapping = mapping

    def visit_Name(self, node: ast.Name) -> ast.AST:
        if isinstance(node.ctx, ast.Load) and node.id in self.mapping:
            return ast.copy_location(copy.deepcopy(self.mapping[node.id]), node)
        return node

    def visit_Lambda(self, node: ast.Lambda) -> ast.AST:
        shadow = {a.arg for a in node.args.args}
        inner = _Subst({k: v for k, v in self.mapping.items() if k not in shadow})
        node.body = inner.visit(node.body)
        return node


def _simple(n: ast.AST) -> bool:
    """evaluated twice or zero times without a difference: names, attribute chains, constants"""
    if isinstance(n, (ast.Name, ast.Constant)):
        return True
    if isinstance(n, ast.Attribute):
        return _simple(n.value)
    return False


def _apply(f: ast.AST, args: List[ast.AST]) -> ast.AST:
    """f(args) with a lambda expanded in place when its parameters are used at most once or the arguments are simple"""
    if isinstance(f, ast.Lambda) and not f.args.vararg and not f.args.kwarg and not f.args.kwonlyargs and not f.args.defaults \
            and len(f.args.args) == len(args) and not any(isinstance(a, ast.Starred) for a in args):
        names = [a.arg for a in f.args.args]
        uses = {nm: sum(1 for x in ast.walk(f.body) if isinstance(x, ast.Name) and x.id == nm) for nm in names}
        if all(_simple(a) or uses[nm] <= 1 for nm, a in zip(names, args)):
            return _Subst(dict(zip(names, args))).visit(copy.deepcopy(f.body))
    if len(args) == 1 and isinstance(args[0], ast.Starred) and isinstance(args[0].value, ast.Tuple):
        args = list(args[0].value.elts)          # f(*(a, b)) is f(a, b)
        return _apply(f, args)
    return ast.Call(func=f, args=args, keywords=[])


class LibCanon(ast.NodeTransformer):
    def __init__(self, tree: ast.Module, enums: Dict[str, Dict[str, ast.AST]]):
        self.enums = enums
        self.n = 0
        # what the module calls the library functions
        self.alias: Dict[str, str] = {}          # local name -> canonical ("itertools.chain", "operator.attrgetter", "functools.reduce", ...)
        self.mods: Dict[str, str] = {}           # local module alias -> module
        self.shadowed: Set[str] = set()
        for st in ast.walk(tree):
            if isinstance(st, ast.ImportFrom) and st.module in ("itertools", "operator", "functools", "dataclasses", "enum") and st.level == 0:
                for a in st.names:
                    self.alias[a.asname or a.name] = "%s.%s" % (st.module, a.name)
            elif isinstance(st, ast.Import):
                for a in st.names:
                    if a.name in ("itertools", "operator", "functools", "dataclasses", "enum"):
                        self.mods[a.asname or a.name] = a.name
            elif isinstance(st, (ast.FunctionDef, ast.ClassDef)) and st.name in ("map", "filter", "zip"):
                self.shadowed.add(st.name)
        # named slices: NAME = slice(..) at module / class level, assigned once
        self.slices: Dict[str, ast.Call] = {}
        counts: Dict[str, int] = {}
        for st in ast.walk(tree):
            if isinstance(st, ast.Assign):
                for t in st.targets:
                    for x in ast.walk(t):
                        if isinstance(x, ast.Name):
                            counts[x.id] = counts.get(x.id, 0) + 1
            elif isinstance(st, ast.AnnAssign) and isinstance(st.target, ast.Name):
                counts[st.target.id] = counts.get(st.target.id, 0) + 1
        for holder in [tree] + [c for c in ast.walk(tree) if isinstance(c, ast.ClassDef)]:
            for st in holder.body:
                tgt = val = None
                if isinstance(st, ast.Assign) and len(st.targets) == 1 and isinstance(st.targets[0], ast.Name):
                    tgt, val = st.targets[0].id, st.value
                elif isinstance(st, ast.AnnAssign) and isinstance(st.target, ast.Name) and st.value is not None:
                    tgt, val = st.target.id, st.value
                if tgt and isinstance(val, ast.Call) and isinstance(val.func, ast.Name) and val.func.id == "slice" and not val.keywords \
                        and 1 <= len(val.args) <= 3 and counts.get(tgt) == 1:
                    self.slices[tgt] = val

    # ------------------------------------------------------------------ helpers
    def lib(self, f: ast.AST) -> Optional[str]:
        if isinstance(f, ast.Name):
            if f.id in self.alias:
                return self.alias[f.id]
            if f.id in ("map", "filter", "zip") and f.id not in self.shadowed:
                return "builtins." + f.id
            return None
        d = _dotted(f)
        if d and "." in d:
            head, rest = d.split(".", 1)
            if head in self.mods:
                return "%s.%s" % (self.mods[head], rest)
            if head in self.alias:          # chain.from_iterable
                return "%s.%s" % (self.alias[head], rest)
        return None

    def fresh(self) -> str:
        self.n += 1
        return "_m%d" % self.n

    @staticmethod
    def genexp(elt: ast.AST, gens: List[Tuple[ast.AST, ast.AST, List[ast.AST]]]) -> ast.GeneratorExp:
        return ast.GeneratorExp(elt=elt, generators=[ast.comprehension(target=t, iter=i, ifs=c, is_async=0) for t, i, c in gens])

    @staticmethod
    def is_repeat(self_: "LibCanon", n: ast.AST) -> Optional[ast.AST]:
        if isinstance(n, ast.Call) and self_.lib(n.func) == "itertools.repeat" and len(n.args) == 1 and not n.keywords:
            return n.args[0]
        return None

    # ------------------------------------------------------------------ expressions
    def visit_Call(self, node: ast.Call) -> ast.AST:
        self.generic_visit(node)
        name = self.lib(node.func)
        kw = node.keywords
        a = node.args
        loc = lambda new: ast.fix_missing_locations(ast.copy_location(new, node))   # noqa
        # (lambda o: E)(x)
        if isinstance(node.func, ast.Lambda) and not kw:
            new = _apply(node.func, list(a))
            if not (isinstance(new, ast.Call) and new.func is node.func):
                return loc(new)
        if len(a) == 1 and isinstance(a[0], ast.Starred) and isinstance(a[0].value, ast.Tuple) and not kw:
            return loc(ast.Call(func=node.func, args=list(a[0].value.elts), keywords=[]))
        if name is None:
            if isinstance(node.func, ast.Name) and node.func.id == "dict" and len(a) == 1 and not kw and isinstance(a[0], ast.Call) \
                    and self.lib(a[0].func) == "builtins.zip" and len(a[0].args) == 2 and all(isinstance(x, (ast.Tuple, ast.List)) for x in a[0].args) \
                    and len(a[0].args[0].elts) == len(a[0].args[1].elts):            # type: ignore[attr-defined]
                return loc(ast.Dict(keys=list(a[0].args[0].elts), values=list(a[0].args[1].elts)))     # type: ignore[attr-defined]
            return node
        if any(isinstance(x, ast.Starred) for x in a):
            return node
        if name == "builtins.map" and len(a) >= 2 and not kw:
            f, its = a[0], list(a[1:])
            consts = [self.is_repeat(self, x) for x in its]
            real = [x for x, c in zip(its, consts) if c is None]
            if len(real) == 1 and all(c is None or _simple(c) for c in consts):
                m = self.fresh()
                args = [ast.Name(id=m, ctx=ast.Load()) if c is None else c for c in consts]
                return loc(self.genexp(_apply(f, args), [(ast.Name(id=m, ctx=ast.Store()), real[0], [])]))
            if len(real) == len(its) and len(its) >= 2:
                ms = [self.fresh() for _ in its]
                tgt = ast.Tuple(elts=[ast.Name(id=m, ctx=ast.Store()) for m in ms], ctx=ast.Store())
                z = ast.Call(func=ast.Name(id="zip", ctx=ast.Load()), args=its, keywords=[])
                return loc(self.genexp(_apply(f, [ast.Name(id=m, ctx=ast.Load()) for m in ms]), [(tgt, z, [])]))
            return node
        if name in ("builtins.filter", "itertools.filterfalse") and len(a) == 2 and not kw:
            m = self.fresh()
            mv = ast.Name(id=m, ctx=ast.Load())
            if isinstance(a[0], ast.Constant) and a[0].value is None:
                test: ast.AST = mv
            else:
                test = _apply(a[0], [mv])
            if name == "itertools.filterfalse":
                test = ast.UnaryOp(op=ast.Not(), operand=test)
            return loc(self.genexp(ast.Name(id=m, ctx=ast.Load()), [(ast.Name(id=m, ctx=ast.Store()), a[1], [test])]))
        if name == "itertools.starmap" and len(a) == 2 and not kw:
            it = a[1]
            # starmap over a generator of tuple displays: the tuple's members are the arguments
            if isinstance(it, ast.GeneratorExp) and isinstance(it.elt, ast.Tuple):
                return loc(ast.GeneratorExp(elt=_apply(a[0], list(it.elt.elts)), generators=it.generators))
            if isinstance(it, ast.Call) and isinstance(it.func, ast.Name) and it.func.id == "enumerate":
                i_, m = self.fresh(), self.fresh()
                tgt = ast.Tuple(elts=[ast.Name(id=i_, ctx=ast.Store()), ast.Name(id=m, ctx=ast.Store())], ctx=ast.Store())
                return loc(self.genexp(_apply(a[0], [ast.Name(id=i_, ctx=ast.Load()), ast.Name(id=m, ctx=ast.Load())]), [(tgt, it, [])]))
            m = self.fresh()
            return loc(self.genexp(ast.Call(func=a[0], args=[ast.Starred(value=ast.Name(id=m, ctx=ast.Load()), ctx=ast.Load())], keywords=[]),
                                   [(ast.Name(id=m, ctx=ast.Store()), it, [])]))
        if name == "builtins.zip" and len(a) == 2 and not kw:
            c0, c1 = self.is_repeat(self, a[0]), self.is_repeat(self, a[1])
            if (c0 is None) != (c1 is None):
                m = self.fresh()
                mv = ast.Name(id=m, ctx=ast.Load())
                c = c0 if c0 is not None else c1
                if _simple(c):        # type: ignore[arg-type]
                    elt = ast.Tuple(elts=[c, mv] if c0 is not None else [mv, c], ctx=ast.Load())      # type: ignore[list-item]
                    return loc(self.genexp(elt, [(ast.Name(id=m, ctx=ast.Store()), a[1] if c0 is not None else a[0], [])]))
            return node
        if name == "itertools.chain" and a and not kw:
            it, m = self.fresh(), self.fresh()
            return loc(self.genexp(ast.Name(id=m, ctx=ast.Load()), [
                (ast.Name(id=it, ctx=ast.Store()), ast.Tuple(elts=list(a), ctx=ast.Load()), []),
                (ast.Name(id=m, ctx=ast.Store()), ast.Name(id=it, ctx=ast.Load()), [])]))
        if name == "itertools.chain.from_iterable" and len(a) == 1 and not kw:
            it, m = self.fresh(), self.fresh()
            return loc(self.genexp(ast.Name(id=m, ctx=ast.Load()), [
                (ast.Name(id=it, ctx=ast.Store()), a[0], []),
                (ast.Name(id=m, ctx=ast.Store()), ast.Name(id=it, ctx=ast.Load()), [])]))
        if name == "itertools.islice" and not kw and 2 <= len(a) <= 3:
            x = a[0]
            none = lambda z: isinstance(z, ast.Constant) and z.value is None     # noqa
            if isinstance(x, ast.Call) and isinstance(x.func, ast.Name) and x.func.id == "range" and len(x.args) == 2 and len(a) == 2 and not x.keywords:
                lo, hi = x.args
                if _simple(lo):
                    stop = ast.Call(func=ast.Name(id="min", ctx=ast.Load()), args=[ast.BinOp(left=lo, op=ast.Add(), right=a[1]), hi], keywords=[])
                    return loc(ast.Call(func=ast.Name(id="range", ctx=ast.Load()), args=[copy.deepcopy(lo), stop], keywords=[]))
            if _simple(x) and not isinstance(x, ast.Constant):
                if len(a) == 2:
                    return loc(ast.Subscript(value=x, slice=ast.Slice(lower=None, upper=a[1], step=None), ctx=ast.Load()))
                if len(a) == 3:
                    return loc(ast.Subscript(value=x, slice=ast.Slice(lower=None if none(a[1]) else a[1], upper=None if none(a[2]) else a[2], step=None),
                                             ctx=ast.Load()))
            return node
        if name == "operator.attrgetter" and a and not kw and all(isinstance(x, ast.Constant) and isinstance(x.value, str) for x in a):
            o = self.fresh()

            def get(path: str) -> ast.AST:
                e: ast.AST = ast.Name(id=o, ctx=ast.Load())
                for part in path.split("."):
                    e = ast.Attribute(value=e, attr=part, ctx=ast.Load())
                return e
            body = get(a[0].value) if len(a) == 1 else ast.Tuple(elts=[get(x.value) for x in a], ctx=ast.Load())       # type: ignore[attr-defined]
            return loc(ast.Lambda(args=ast.arguments(posonlyargs=[], args=[ast.arg(arg=o)], kwonlyargs=[], kw_defaults=[], defaults=[]), body=body))
        if name == "operator.itemgetter" and a and not kw:
            o = self.fresh()
            sub = lambda k: ast.Subscript(value=ast.Name(id=o, ctx=ast.Load()), slice=k, ctx=ast.Load())     # noqa
            body = sub(a[0]) if len(a) == 1 else ast.Tuple(elts=[sub(k) for k in a], ctx=ast.Load())
            return loc(ast.Lambda(args=ast.arguments(posonlyargs=[], args=[ast.arg(arg=o)], kwonlyargs=[], kw_defaults=[], defaults=[]), body=body))
        if name == "operator.methodcaller" and a and isinstance(a[0], ast.Constant) and isinstance(a[0].value, str):
            o = self.fresh()
            call = ast.Call(func=ast.Attribute(value=ast.Name(id=o, ctx=ast.Load()), attr=a[0].value, ctx=ast.Load()), args=list(a[1:]), keywords=list(kw))
            return loc(ast.Lambda(args=ast.arguments(posonlyargs=[], args=[ast.arg(arg=o)], kwonlyargs=[], kw_defaults=[], defaults=[]), body=call))
        return node

    def visit_Delete(self, node: ast.Delete) -> ast.AST:
        # `del X[:k]` drops the first k elements in place; as a value X is X[k:] afterwards (bytearray / list buffers)
        self.generic_visit(node)
        if len(node.targets) == 1 and isinstance(node.targets[0], ast.Subscript) and isinstance(node.targets[0].slice, ast.Slice):
            sl = node.targets[0].slice
            base = node.targets[0].value
            if sl.lower is None and sl.step is None and sl.upper is not None and isinstance(base, (ast.Name, ast.Attribute)):
                tgt = copy.deepcopy(base)
                for n_ in ast.walk(tgt):
                    if isinstance(n_, (ast.Name, ast.Attribute)) and hasattr(n_, "ctx"):
                        n_.ctx = ast.Load()
                tgt.ctx = ast.Store()      # type: ignore[attr-defined]
                val = ast.Subscript(value=copy.deepcopy(base), slice=ast.Slice(lower=sl.upper, upper=None, step=None), ctx=ast.Load())
                for n_ in ast.walk(val.value):
                    if hasattr(n_, "ctx"):
                        n_.ctx = ast.Load()       # type: ignore[attr-defined]
                new = ast.Assign(targets=[tgt], value=val, lineno=node.lineno)
                return ast.fix_missing_locations(ast.copy_location(new, node))
        return node

    def visit_Subscript(self, node: ast.Subscript) -> ast.AST:
        self.generic_visit(node)
        s = node.slice
        nm = s.id if isinstance(s, ast.Name) else (s.attr if isinstance(s, ast.Attribute) and isinstance(s.value, ast.Name) and s.value.id in ("self", "cls") else None)
        if nm in self.slices:
            c = self.slices[nm]
            none = lambda z: isinstance(z, ast.Constant) and z.value is None     # noqa
            args = [None if none(x) else copy.deepcopy(x) for x in c.args]
            if len(args) == 1:
                lo, hi, st = None, args[0], None
            elif len(args) == 2:
                lo, hi, st = args[0], args[1], None
            else:
                lo, hi, st = args
            node.slice = ast.copy_location(ast.Slice(lower=lo, upper=hi, step=st), s)
            ast.fix_missing_locations(node)
        return node

    def visit_Attribute(self, node: ast.Attribute) -> ast.AST:
        self.generic_visit(node)
        # E.MEMBER.value of an Enum class with constant members
        if node.attr == "value" and isinstance(node.value, ast.Attribute) and isinstance(node.ctx, ast.Load):
            cls = node.value.value
            cname = cls.id if isinstance(cls, ast.Name) else (cls.attr if isinstance(cls, ast.Attribute) else None)
            if cname in self.enums and node.value.attr in self.enums[cname]:
                return ast.fix_missing_locations(ast.copy_location(copy.deepcopy(self.enums[cname][node.value.attr]), node))
        return node

    def visit_List(self, node: ast.List) -> ast.AST:
        self.generic_visit(node)
        st = [i for i, e in enumerate(node.elts) if isinstance(e, ast.Starred)]
        if len(st) == 1 and isinstance(node.ctx, ast.Load):
            i = st[0]
            mid: ast.AST = ast.Call(func=ast.Name(id="list", ctx=ast.Load()), args=[node.elts[i].value], keywords=[])      # type: ignore[attr-defined]
            parts: List[ast.AST] = []
            if node.elts[:i]:
                parts.append(ast.List(elts=node.elts[:i], ctx=ast.Load()))
            parts.append(mid)
            if node.elts[i + 1:]:
                parts.append(ast.List(elts=node.elts[i + 1:], ctx=ast.Load()))
            e = parts[0]
            for p_ in parts[1:]:
                e = ast.BinOp(left=e, op=ast.Add(), right=p_)
            return ast.fix_missing_locations(ast.copy_location(e, node))
        return node

    # ------------------------------------------------------------------ statements
    def _block(self, body: List[ast.stmt]) -> List[ast.stmt]:
        out: List[ast.stmt] = []
        for st in body:
            out.extend(self._reduce(self._cond_domain(st)))
        return out

    def _reduce(self, st: ast.stmt) -> List[ast.stmt]:
        """x = reduce(f, xs, init)  /  return reduce(f, xs, init)"""
        val = getattr(st, "value", None) if isinstance(st, (ast.Assign, ast.Return, ast.AnnAssign)) else None
        if not (isinstance(val, ast.Call) and self.lib(val.func) == "functools.reduce" and len(val.args) == 3 and not val.keywords):
            return [st]
        f, xs, init = val.args
        if isinstance(st, ast.Assign) and len(st.targets) == 1 and isinstance(st.targets[0], ast.Name):
            acc = st.targets[0].id
        elif isinstance(st, ast.AnnAssign) and isinstance(st.target, ast.Name):
            acc = st.target.id
        elif isinstance(st, ast.Return):
            acc = "_acc%d" % (self.n + 1)
            self.n += 1
        else:
            return [st]
        m = self.fresh()
        a0 = ast.Assign(targets=[ast.Name(id=acc, ctx=ast.Store())], value=init, lineno=st.lineno)
        step = ast.Assign(targets=[ast.Name(id=acc, ctx=ast.Store())],
                          value=_apply(f, [ast.Name(id=acc, ctx=ast.Load()), ast.Name(id=m, ctx=ast.Load())]), lineno=st.lineno)
        loop = ast.For(target=ast.Name(id=m, ctx=ast.Store()), iter=xs, body=[step], orelse=[], type_comment=None)
        out: List[ast.stmt] = [a0, loop]
        if isinstance(st, ast.Return):
            out.append(ast.Return(value=ast.Name(id=acc, ctx=ast.Load())))
        for o in out:
            ast.copy_location(o, st)
            ast.fix_missing_locations(o)
        return out

    def visit_For(self, node: ast.For) -> ast.AST:
        self.generic_visit(node)
        it = node.iter
        if isinstance(it, ast.Call) and self.lib(it.func) == "itertools.takewhile" and len(it.args) == 2 and not it.keywords and not node.orelse \
                and all(isinstance(x, (ast.Name, ast.Tuple, ast.List, ast.Store, ast.Load)) for x in ast.walk(node.target)):
            item = copy.deepcopy(node.target)
            for x in ast.walk(item):
                if hasattr(x, "ctx"):
                    x.ctx = ast.Load()        # type: ignore[attr-defined]
            test = ast.UnaryOp(op=ast.Not(), operand=_apply(it.args[0], [item]))
            guard = ast.If(test=test, body=[ast.Break()], orelse=[])
            ast.copy_location(guard, node)
            node.iter = it.args[1]
            node.body = [guard] + node.body
            ast.fix_missing_locations(node)
        return node

    @staticmethod
    def _empty(n: ast.AST) -> bool:
        return isinstance(n, (ast.Tuple, ast.List)) and not n.elts

    def _cond_domain(self, st: ast.stmt) -> ast.stmt:
        """for x in (() if c else xs): B   ->   if not c: for x in xs: B"""
        if isinstance(st, ast.For) and isinstance(st.iter, ast.IfExp) and not st.orelse and (self._empty(st.iter.body) != self._empty(st.iter.orelse)):
            it = st.iter
            if self._empty(it.body):
                test: ast.AST = ast.UnaryOp(op=ast.Not(), operand=it.test)
                st.iter = it.orelse
            else:
                test = it.test
                st.iter = it.body
            new = ast.If(test=test, body=[st], orelse=[])
            return ast.fix_missing_locations(ast.copy_location(new, st))
        return st

    def generic_visit(self, node: ast.AST) -> ast.AST:
        super().generic_visit(node)
        for fld in ("body", "orelse", "finalbody"):
            lst = getattr(node, fld, None)
            if isinstance(lst, list) and lst and isinstance(lst[0], ast.stmt):
                setattr(node, fld, self._block(lst))
        return node

    def visit_ClassDef(self, node: ast.ClassDef) -> ast.AST:
        self.generic_visit(node)
        decs = [(_dotted(d.func) if isinstance(d, ast.Call) else _dotted(d)) or "" for d in node.decorator_list]
        is_dc = any(d.split(".")[-1] == "dataclass" and (d in self.alias and self.alias[d] == "dataclasses.dataclass" or d.startswith("dataclasses.")) for d in decs)
        if is_dc and not any(isinstance(s, ast.FunctionDef) and s.name == "__init__" for s in node.body):
            init = self._dataclass_init(node)
            if init is not None:
                node.body.append(init)
        return node

    def _dataclass_init(self, node: ast.ClassDef) -> Optional[ast.FunctionDef]:
        params: List[Tuple[str, Optional[ast.AST], bool]] = []      # (name, default expression or None, is a factory call)
        stores: List[ast.stmt] = []
        for st in node.body:
            if not (isinstance(st, ast.AnnAssign) and isinstance(st.target, ast.Name)):
                continue
            ann = ast.unparse(st.annotation)
            if "ClassVar" in ann:
                continue
            nm = st.target.id
            default: Optional[ast.AST] = st.value
            init_param = True
            if isinstance(default, ast.Call) and (self.lib(default.func) == "dataclasses.field" or (_dotted(default.func) or "").endswith("field")):
                kws = {k.arg: k.value for k in default.keywords}
                if isinstance(kws.get("init"), ast.Constant) and kws["init"].value is False:
                    init_param = False
                if "default_factory" in kws:
                    default = ast.Call(func=kws["default_factory"], args=[], keywords=[])
                elif "default" in kws:
                    default = kws["default"]
                else:
                    default = None
            if init_param:
                params.append((nm, default, False))
                value: ast.AST = ast.Name(id=nm, ctx=ast.Load())
                if default is not None and isinstance(default, ast.Call):
                    # a factory default is built per call: `x = None` in the signature, `factory()` when not given
                    value = ast.IfExp(test=ast.Compare(left=ast.Name(id=nm, ctx=ast.Load()), ops=[ast.Is()], comparators=[ast.Constant(value=None)]),
                                      body=default, orelse=ast.Name(id=nm, ctx=ast.Load()))
                stores.append(ast.Assign(targets=[ast.Attribute(value=ast.Name(id="self", ctx=ast.Load()), attr=nm, ctx=ast.Store())], value=value, lineno=st.lineno))
            elif default is not None:
                stores.append(ast.Assign(targets=[ast.Attribute(value=ast.Name(id="self", ctx=ast.Load()), attr=nm, ctx=ast.Store())], value=default, lineno=st.lineno))
        if not stores:
            return None
        args = [ast.arg(arg="self")] + [ast.arg(arg=p, annotation=None) for p, _d, _f in params]
        defaults: List[ast.AST] = []
        seen_default = False
        for _p, d, _f in params:
            if d is not None:
                seen_default = True
                defaults.append(ast.Constant(value=None) if isinstance(d, ast.Call) else d)
            elif seen_default:
                return None
        if any(isinstance(s, ast.FunctionDef) and s.name == "__post_init__" for s in node.body):
            stores.append(ast.Expr(value=ast.Call(func=ast.Attribute(value=ast.Name(id="self", ctx=ast.Load()), attr="__post_init__", ctx=ast.Load()),
                                                  args=[], keywords=[])))
        fn = ast.FunctionDef(name="__init__", args=ast.arguments(posonlyargs=[], args=args, kwonlyargs=[], kw_defaults=[], defaults=defaults),
                             body=stores, decorator_list=[], returns=None, type_comment=None)
        ast.copy_location(fn, node)
        ast.fix_missing_locations(fn)
        return fn


def collect_enums(trees: List[ast.Module]) -> Dict[str, Dict[str, ast.AST]]:
    """{class name: {member: constant expression}} for Enum classes whose name is unique in the package"""
    found: Dict[str, List[Dict[str, ast.AST]]] = {}
    for tree in trees:
        for c in ast.walk(tree):
            if isinstance(c, ast.ClassDef) and any((_dotted(b) or "").split(".")[-1] in ("Enum", "IntEnum") for b in c.bases):
                members: Dict[str, ast.AST] = {}
                for st in c.body:
                    if isinstance(st, ast.Assign) and len(st.targets) == 1 and isinstance(st.targets[0], ast.Name) \
                            and isinstance(st.value, (ast.Constant, ast.Name, ast.Attribute, ast.BinOp, ast.UnaryOp)):
                        members[st.targets[0].id] = st.value
                found.setdefault(c.name, []).append(members)
    return {k: v[0] for k, v in found.items() if len(v) == 1 and all(isinstance(x, ast.Constant) for x in v[0].values())}


def canon_library(trees: List[ast.Module]) -> None:
    enums = collect_enums(trees)
    for i, tree in enumerate(trees):
        LibCanon(tree, enums).visit(tree)
        ast.fix_missing_locations(tree)
