"""E6: mutation (effect) summaries and who-may-write scans."""
from __future__ import annotations

import ast
from typing import Any, Dict, List, Optional, Sequence, Set, Tuple

from .repo import FuncInfo, Repo, dotted
from .terms import Term, show
from .walker import MUTATORS, Event, Summary, Walker


def access_root(t: Term) -> Tuple[Optional[Term], bool]:
    """(root term, through_local_handle?) of an access path."""
    handle = False
    while True:
        k = t[0]
        if k in ("a", "s", "sl"):
            t = t[1]
            continue
        if k == "call" and t[1][0] == "a":
            name = t[1][2]
            if name in ("mutate", "copy", "finish", "set", "delete", "values", "items", "keys", "get"):
                if name in ("mutate", "copy"):
                    handle = True
                t = t[1][1]
                continue
            return None, handle
        break
    if t[0] in ("v", "e"):
        return t, handle
    if t[0] == "g":
        return t, handle
    return None, handle


class Mutation:
    def __init__(self, ev: Event, what: str, root: Term):
        self.ev = ev
        self.what = what
        self.root = root

    def __repr__(self) -> str:
        return "%s of %s at %s" % (self.what, show(self.root), self.ev.loc)


def event_mutation(ev: Event) -> Optional[Mutation]:
    """A store / del / in-place mutator call whose target is reachable from a parameter, loop element or global."""
    if ev.kind in ("store", "del"):
        root, handle = access_root(ev.term)
        if root is not None and not handle:
            return Mutation(ev, "%s %s" % (ev.kind, show(ev.term)), root)
        return None
    if ev.kind == "call" and ev.parts is not None:
        f = ev.parts[0]
        if f[0] == "a" and f[2] in MUTATORS:
            root, handle = access_root(f[1])
            if root is not None and not handle:
                return Mutation(ev, "call %s" % show(ev.term), root)
    return None


def collect_mutations(w: Walker, qualname: str, visited: Optional[Set[str]] = None, reach: Optional[List[str]] = None) -> List[Mutation]:
    """Mutations of non-local state performed by `qualname` or anything it may call (resolved targets)."""
    visited = visited if visited is not None else set()
    if qualname in visited:
        return []
    visited.add(qualname)
    if reach is not None:
        reach.append(qualname)
    summ = w.summary(qualname)
    out: List[Mutation] = []
    for ev in summ.events:
        m = event_mutation(ev)
        if m is not None:
            out.append(m)
        if ev.kind == "call" and not ev.inlined:
            if any(t.startswith("new:") for t in ev.targets):
                continue    # constructor: `self.x = ...` initialises a fresh object
            for t in ev.targets:
                out.extend(collect_mutations(w, t, visited, reach))
        elif ev.kind == "call" and ev.inlined and reach is not None:
            for t in ev.targets:
                if t not in reach and not t.startswith("new:"):
                    reach.append(t)
    return out


# --------------------------------------------------------------------------- who-may-write (syntactic + typed)
class Writer:
    def __init__(self, fi: Optional[FuncInfo], node: ast.AST, kind: str, path: str, module_path: str):
        self.fi = fi
        self.node = node
        self.kind = kind          # store | del | augassign | call:<mutator>
        self.path = path          # dotted text of the written expression
        self.module_path = module_path

    @property
    def where(self) -> str:
        return "%s:%d" % (self.module_path, getattr(self.node, "lineno", 0))

    @property
    def func(self) -> str:
        return self.fi.qualname if self.fi else "<module>"


def _enclosing_funcs(repo: Repo, tree: ast.AST) -> Dict[int, Optional[FuncInfo]]:
    owner: Dict[int, Optional[FuncInfo]] = {}

    def visit(node: ast.AST, cur: Optional[FuncInfo]) -> None:
        for ch in ast.iter_child_nodes(node):
            nxt = cur
            if isinstance(ch, (ast.FunctionDef, ast.AsyncFunctionDef)):
                nxt = repo.func_by_node.get(id(ch), cur)
            owner[id(ch)] = nxt
            visit(ch, nxt)
    visit(tree, None)
    return owner


def attr_writers(repo: Repo, attr: str, trees: Optional[Sequence[Tuple[str, ast.AST]]] = None) -> List[Writer]:
    """Every syntactic write (store, del, augmented assignment, in-place mutator call, subscript store/del) whose
    target path ends in `.attr` (possibly followed by subscripts), anywhere in the given trees (default: whole repo)."""
    out: List[Writer] = []
    items = trees if trees is not None else [(m.path, m.tree) for m in repo.modules.values()]
    for path, tree in items:
        owner = _enclosing_funcs(repo, tree) if trees is None else {}

        def strip(n: ast.AST) -> ast.AST:
            while isinstance(n, ast.Subscript):
                n = n.value
            return n

        def is_target(n: ast.AST) -> bool:
            b = strip(n)
            return isinstance(b, ast.Attribute) and b.attr == attr

        for node in ast.walk(tree):
            fi = owner.get(id(node))
            if isinstance(node, (ast.Assign, ast.AnnAssign, ast.AugAssign)):
                tgts = node.targets if isinstance(node, ast.Assign) else [node.target]
                if isinstance(node, ast.AnnAssign) and node.value is None:
                    continue
                flat: List[ast.AST] = []
                for t in tgts:
                    flat.extend(t.elts if isinstance(t, (ast.Tuple, ast.List)) else [t])
                for t in flat:
                    if is_target(t):
                        out.append(Writer(fi, node, "augassign" if isinstance(node, ast.AugAssign) else "store", ast.unparse(t), path))
            elif isinstance(node, ast.Delete):
                for t in node.targets:
                    if is_target(t):
                        out.append(Writer(fi, node, "del", ast.unparse(t), path))
            elif isinstance(node, ast.Call) and isinstance(node.func, ast.Attribute) and node.func.attr in MUTATORS:
                if is_target(node.func.value):
                    out.append(Writer(fi, node, "call:" + node.func.attr, ast.unparse(node.func.value), path))
            elif isinstance(node, (ast.For, ast.With)):
                pass
    return out


# --------------------------------------------------------------------------- typed who-may-write
class TypedWrite:
    def __init__(self, fi: FuncInfo, ev: Event, owner: str, attr: str, kind: str):
        self.fi = fi
        self.ev = ev
        self.owner = owner      # qualname of the class whose attribute is written
        self.attr = attr
        self.kind = kind        # store | del | item-store | item-del | call:<mutator>

    @property
    def func(self) -> str:
        return self.fi.qualname


def typed_writes(w: Walker, repo: Repo) -> List[TypedWrite]:
    """all writes `X.attr = ..`, `del X.attr[..]`, `X.attr[k] = ..`, `X.attr.mutator(..)` in the repository with the
    (light-)typed class of X; computed once per Walker."""
    cached = getattr(w, "_typed_writes", None)
    if cached is not None:
        return cached
    out: List[TypedWrite] = []
    for fi in repo.all_functions():
        if w.transparent(fi.qualname):
            continue        # effects of a later-extracted helper show up (inlined) in its callers
        try:
            s = w.summary(fi.qualname, 0)
        except Exception:
            continue
        for ev in s.events:
            if ev.chain:
                continue
            tgt = None
            kind = ev.kind
            if ev.kind in ("store", "del"):
                tgt = ev.term
                if tgt[0] == "s":
                    tgt = tgt[1]
                    kind = "item-" + ev.kind
            elif ev.kind == "call" and ev.parts and ev.parts[0][0] == "a" and ev.parts[0][2] in MUTATORS:
                tgt = ev.parts[0][1]
                kind = "call:" + ev.parts[0][2]
            if tgt is None or tgt[0] != "a":
                continue
            ty = s.norm.type_of(tgt[1], s.scope)
            owner = None
            if ty and ty[0] == "C":
                owner = ty[1]
            elif ty and ty[0] == "K":
                owner = ty[1]
            if owner is None:
                continue
            # attribute may be declared on a base class
            out.append(TypedWrite(fi, ev, owner, tgt[2], kind))
    w._typed_writes = out  # type: ignore
    return out


def attr_mutations(w: Walker, repo: Repo) -> List[Tuple[FuncInfo, Event, str, str]]:
    """every in-place change of something reached through an attribute, whatever the type of its holder:
    `X.attr.mutator(..)`, `X.attr[k] = ..`, `del X.attr[k]` -> (function, event, attr, kind). Computed once per Walker."""
    cached = getattr(w, "_attr_mutations", None)
    if cached is not None:
        return cached
    out: List[Tuple[FuncInfo, Event, str, str]] = []
    for fi in repo.all_functions():
        if w.transparent(fi.qualname):
            continue
        try:
            s = w.summary(fi.qualname, 0)
        except Exception:
            continue
        for ev in s.events:
            if ev.chain:
                continue
            tgt = None
            kind = ev.kind
            if ev.kind in ("store", "del") and ev.term[0] == "s":
                tgt, kind = ev.term[1], "item-" + ev.kind
            elif ev.kind == "call" and ev.parts and ev.parts[0][0] == "a" and ev.parts[0][2] in MUTATORS:
                tgt, kind = ev.parts[0][1], "call:" + ev.parts[0][2]
            if tgt is not None and tgt[0] == "a":
                out.append((fi, ev, tgt[2], kind))
    w._attr_mutations = out  # type: ignore
    return out
