"""Derived optional parameters.

    def send(self, message, serialized=None):            for peer in peers:
        if serialized is None:                               peer.send(message, serialized=message.serialize())
            serialized = message.serialize()
        ...

A parameter with default None that the function replaces, when absent, by an expression E over its other parameters - and that every
call site either omits or passes as exactly E of the arguments it passes - carries no information: inside the function it *is* E, and
at the call sites the argument is redundant. Summaries are rewritten accordingly (the parameter becomes E, the argument disappears
from the call terms), so that handing a precomputed value down instead of recomputing it changes nothing for the rules. If one site
passes anything else, nothing is rewritten."""
from __future__ import annotations

from typing import Any, Dict, List, Optional, Tuple

from .terms import C, Term, mentions, substitute, subterms


def _refold(norm: Any, t: Any) -> Any:
    if not isinstance(t, tuple) or not t:
        return t
    t = tuple(_refold(norm, x) if isinstance(x, tuple) else x for x in t)
    if t[0] == "ife" and len(t) == 4:
        return norm.mk_ife(t[1], t[2], t[3])
    if t[0] == "cmp" and len(t) == 4 and t[1] in ("is", "isnot") and C(None) in (t[2], t[3]):
        other = t[2] if t[3] == C(None) else t[3]
        if other == C(None):
            return C(t[1] == "is")
    return t


class Derived:
    def __init__(self, walker: Any):
        self.w = walker
        self.repo = walker.repo
        self.cache: Dict[str, Dict[str, Term]] = {}
        self.busy: set = set()
        self.sites: Optional[Dict[str, List[Tuple[Any, Any]]]] = None

    def call_sites(self) -> Dict[str, List[Tuple[Any, Any]]]:
        if self.sites is None:
            self.sites = {}
            cands = {q for q, fi in self.repo.functions.items() if any(self._none_default(fi, p) for p in fi.params)}
            if cands:
                names = {self.repo.functions[q].name for q in cands}
                for q, fi in self.repo.functions.items():
                    if self.w.transparent(q):
                        continue
                    src = self.repo.src(fi.node)
                    if not any(n in src for n in names):
                        continue
                    s = self.w.summary(q, 0)
                    for e in s.events:
                        if e.kind == "call" and not e.chain and e.term[0] == "call":
                            for t in e.targets:
                                if t in cands:
                                    self.sites.setdefault(t, []).append((s, e))
        return self.sites

    @staticmethod
    def _none_default(fi: Any, p: str) -> bool:
        d = fi.defaults().get(p)
        import ast as _ast
        return isinstance(d, _ast.Constant) and d.value is None

    def of(self, q: str) -> Dict[str, Term]:
        """{parameter: E} for the derived parameters of q"""
        if q in self.cache:
            return self.cache[q]
        if q in self.busy:
            return {}
        self.busy.add(q)
        out: Dict[str, Term] = {}
        try:
            fi = self.repo.functions.get(q)
            if fi is not None and not self.w.transparent(q):
                s = self.w.summary(q, 0)
                for idx, p in enumerate(fi.params):
                    if not self._none_default(fi, p):
                        continue
                    pv = ("v", p)
                    isnone = ("cmp", "is", pv, C(None)) if True else None
                    cands = set()
                    bare = False
                    tests = (("cmp", "is", pv, C(None)), ("cmp", "isnot", pv, C(None)))
                    for e in s.events:
                        for t in (e.term, e.value) + tuple(cj.term for cj in e.pc if cj.term not in tests):
                            if t is None or not mentions(t, pv):
                                continue
                            covered: List[Term] = []
                            for x in subterms(t):
                                if x[0] == "ife" and len(x) == 4 and x[3] == pv and x[1] in (("cmp", "is", pv, C(None)), ("cmp", "is", C(None), pv)):
                                    cands.add(x[2])
                                    covered.append(x)
                            # every occurrence of the parameter must be inside such a conditional
                            stripped = t
                            for x in covered:
                                stripped = substitute(stripped, {x: C(0)})
                            if mentions(stripped, pv):
                                bare = True
                    if bare or len(cands) != 1:
                        continue
                    E = next(iter(cands))
                    if mentions(E, pv) or any(x[0] in ("lv", "e", "new") for x in subterms(E)):
                        continue
                    # every call site omits it or passes E of its own arguments
                    ok = True
                    explicit = 0
                    bound = fi.cls is not None and not fi.is_staticmethod
                    params = fi.params[1:] if bound else fi.params
                    for cs, e in self.call_sites().get(q, []):
                        args, kw = list(e.term[2]), dict(e.term[3])
                        pos = params.index(p) if p in params else -1
                        given = args[pos] if 0 <= pos < len(args) else kw.get(p)
                        if given is None or given == C(None):
                            continue
                        explicit += 1
                        m: Dict[Term, Term] = {}
                        for i, pn in enumerate(params):
                            if pn == p:
                                continue
                            a = args[i] if i < len(args) else kw.get(pn)
                            if a is not None:
                                m[("v", pn)] = a
                        if bound and e.parts and e.parts[0][0] == "a":
                            m[("v", fi.params[0])] = e.parts[0][1]
                        want = substitute(E, m)
                        if any(x[0] == "v" and x in [("v", pn) for pn in fi.params] and x not in m.values() for x in subterms(want) if x not in m.values()) and False:
                            ok = False
                        if given != want:
                            ok = False
                            break
                    if ok and explicit:
                        out[p] = E
        finally:
            self.busy.discard(q)
        self.cache[q] = out
        return out

    def apply(self, s: Any) -> Any:
        """rewrite a summary in place (once): its own derived parameters become their expressions; redundant arguments of calls to
        functions with derived parameters disappear"""
        if getattr(s, "_derived_done", False):
            return s
        s._derived_done = True
        own = self.of(s.fi.qualname)
        sub = {("v", p): E for p, E in own.items()}
        for e in s.events:
            if sub:
                e.term = _refold(s.norm, substitute(e.term, sub))
                if e.value is not None:
                    e.value = _refold(s.norm, substitute(e.value, sub))
                if e.parts is not None:
                    e.parts = (substitute(e.parts[0], sub), [ _refold(s.norm, substitute(a, sub)) for a in e.parts[1]], [(k, _refold(s.norm, substitute(v, sub))) for k, v in e.parts[2]])
                for cj in e.pc:
                    cj.term = _refold(s.norm, substitute(cj.term, sub))
                e.withs = tuple(_refold(s.norm, substitute(t_, sub)) for t_ in e.withs)
                e.loops = tuple((l_[0], _refold(s.norm, substitute(l_[1], sub))) + tuple(l_[2:]) for l_ in e.loops)
            if e.kind == "call" and e.term[0] == "call":
                for t in e.targets:
                    d = self.of(t) if t in self.repo.functions else {}
                    if not d:
                        continue
                    fi = self.repo.functions[t]
                    bound = fi.cls is not None and not fi.is_staticmethod
                    params = fi.params[1:] if bound else fi.params
                    args, kw = list(e.term[2]), list(e.term[3])
                    for p in d:
                        kw = [(k, v) for k, v in kw if k != p]
                        pos = params.index(p) if p in params else -1
                        if 0 <= pos < len(args):
                            if pos == len(args) - 1:
                                args = args[:pos]
                            else:
                                args[pos] = C(None)
                    while args and args[-1] == C(None) and len(args) > 0 and params[len(args) - 1:len(args)] and fi.defaults().get(params[len(args) - 1]) is not None \
                            and self._none_default(fi, params[len(args) - 1]):
                        args = args[:-1]
                    e.term = ("call", e.term[1], tuple(args), tuple(kw))
                    if e.parts is not None:
                        e.parts = (e.parts[0], list(args), list(kw))
        return s
