"""E14: self-test. Seeded defects must be reported by the expected rule; behaviour-preserving twins must change nothing.

Works on scratch copies of the repository's sources made under tempfile.mkdtemp() (outside /repo and /verif), removed afterwards.
Nothing from the repository is executed: a variant only has to parse.
"""
from __future__ import annotations

import ast
import concurrent.futures
import importlib
import os
import shutil
import sys
import tempfile
from typing import Any, Dict, List, Optional, Tuple

from ..engine.repo import AnalysisError, Repo
from ..engine.report import HOLDS, UNKNOWN, VIOLATED, Check

COPY = ["skepticoin", "docs/params.md", "setup.py"]


def make_copy(repo_root: str, dst: str) -> None:
    for rel in COPY:
        src = os.path.join(repo_root, rel)
        d = os.path.join(dst, rel)
        if os.path.isdir(src):
            shutil.copytree(src, d, ignore=shutil.ignore_patterns("__pycache__", "*.pyc", "*.db"))
        elif os.path.isfile(src):
            os.makedirs(os.path.dirname(d), exist_ok=True)
            shutil.copy(src, d)
    td = os.path.join(repo_root, "tests", "testdata", "chain")
    if os.path.isdir(td):
        os.makedirs(os.path.join(dst, "tests", "testdata", "chain"), exist_ok=True)
        for fn in os.listdir(td):
            open(os.path.join(dst, "tests", "testdata", "chain", fn), "w").close()   # names only: they are data for C18


def apply_edits(root: str, edits: List[Tuple[str, str, str]]) -> Optional[str]:
    """edits: (relative file, old text, new text); old must occur exactly once. Returns an error string or None."""
    for rel, old, new in edits:
        p = os.path.join(root, rel)
        if not os.path.isfile(p):
            return "file %s missing" % rel
        s = open(p).read()
        if s.count(old) != 1:
            return "anchor occurs %d times in %s" % (s.count(old), rel)
        s = s.replace(old, new)
        if rel.endswith(".py"):
            try:
                ast.parse(s)
            except SyntaxError as e:
                return "variant does not parse: %s" % e
        open(p, "w").write(s)
    return None


def evaluate(prop: str, root: str) -> Dict[str, Any]:
    """Run the quick rules of `prop` against the tree at root; return the set of violated (rule, construct) and unknowns."""
    try:
        repo = Repo(root)
    except AnalysisError as e:
        return {"violated": [], "unknown": [("load", str(e))], "detail": {}}
    ck = Check(prop, repo, "quick", 0)
    mod = importlib.import_module("verif.rules.%s" % prop.lower())
    try:
        mod.check(ck)
        from ..rules import shared
        shared.run(ck)
    except AnalysisError as e:
        ck.unknown("engine", "analysis", str(e))
    except Exception as e:   # noqa
        import traceback
        ck.unknown("engine", "internal", traceback.format_exc().strip().splitlines()[-1])
    return {
        "violated": sorted({(o.rule, o.construct) for o in ck.obligations if o.status == VIOLATED}),
        "unknown": sorted({(o.rule, o.construct) for o in ck.obligations if o.status == UNKNOWN}),
        "detail": {"%s|%s" % (o.rule, o.construct): o.detail for o in ck.obligations if o.status != HOLDS},
    }


def run_variant(args: Tuple[str, Dict[str, Any]]) -> Dict[str, Any]:
    repo_root, v = args
    tmp = tempfile.mkdtemp(prefix="skv_")
    try:
        make_copy(repo_root, tmp)
        if v.get("patch"):
            import subprocess
            pf = os.path.join(os.path.dirname(REFACTORS), v["patch"], "patch.diff")
            r0 = subprocess.run(["patch", "-p1", "-s", "-f", "-i", pf], cwd=tmp, capture_output=True, text=True)
            if r0.returncode != 0:
                return {"id": v["id"], "skipped": "base patch %s does not apply" % v["patch"]}
        err = apply_edits(tmp, v["edits"])
        if err:
            return {"id": v["id"], "skipped": err}
        res = evaluate(v["prop"], tmp)
        res["id"] = v["id"]
        return res
    finally:
        shutil.rmtree(tmp, ignore_errors=True)


def corpus(prop: Optional[str] = None) -> List[Dict[str, Any]]:
    from . import mutants, twins
    out = []
    for m in mutants.MUTANTS:
        d = dict(m)
        d["kind"] = "mutant"
        out.append(d)
    for t in twins.TWINS:
        d = dict(t)
        d["kind"] = "twin"
        out.append(d)
    if prop:
        out = [v for v in out if v["prop"] == prop]
    return out


def run_all(repo_root: str, variants: List[Dict[str, Any]], jobs: int = 16) -> List[Dict[str, Any]]:
    if not variants:
        return []
    props = sorted({v["prop"] for v in variants})
    base = {p: evaluate(p, repo_root) for p in props}
    results = []
    # the corpus measures differences against the tree it runs on; that tree itself must be clean (listed known findings apart), or
    # a rule that has started to report on correct code hides behind the subtraction
    import json
    from ..engine.report import VERIF_ROOT
    try:
        listed = {(f["property"], f["rule"], f["construct"]) for f in json.load(open(os.path.join(VERIF_ROOT, "known_findings.json")))["findings"]}
    except Exception:   # noqa
        listed = set()
    for p in props:
        own = [x for x in base[p]["violated"] if (p, x[0], x[1]) not in listed] + list(base[p]["unknown"])
        if own:
            results.append({"id": "unchanged-tree@%s" % p, "kind": "twin", "prop": p, "expect": None, "status": "FALSE-ALARM",
                            "by": ["%s: %s" % x for x in own][:3]})
    with concurrent.futures.ProcessPoolExecutor(max_workers=min(jobs, len(variants))) as ex:
        for v, res in zip(variants, ex.map(run_variant, [(repo_root, v) for v in variants])):
            r = {"id": v["id"], "kind": v["kind"], "prop": v["prop"], "expect": v.get("expect")}
            if "skipped" in res:
                r["status"] = "skipped"
                r["why"] = res["skipped"]
            else:
                b = base[v["prop"]]
                new_v = [x for x in res["violated"] if x not in b["violated"]]
                new_u = [x for x in res["unknown"] if x not in b["unknown"]]
                if v["kind"] == "mutant":
                    exp = v["expect"]
                    exps = exp if isinstance(exp, (list, tuple)) else [exp]
                    hit = [x for x in new_v if any(x[0].startswith(e) for e in exps)]
                    if hit:
                        r["status"] = "detected"
                        r["by"] = ["%s: %s" % h for h in hit][:3]
                    elif new_v:
                        r["status"] = "detected-other-rule"
                        r["by"] = ["%s: %s" % h for h in new_v][:3]
                    elif new_u:
                        r["status"] = "unknown"
                        r["by"] = ["%s: %s" % h for h in new_u][:3]
                    else:
                        r["status"] = "MISSED"
                else:
                    if new_v or new_u:
                        r["status"] = "FALSE-ALARM"
                        r["by"] = ["%s: %s — %s" % (h[0], h[1], res["detail"].get("%s|%s" % h, "")) for h in (new_v + new_u)][:3]
                    else:
                        r["status"] = "silent"
            results.append(r)
    return results


REFACTORS = os.path.join(os.path.dirname(os.path.dirname(os.path.dirname(os.path.abspath(__file__)))), "refactors")


def _run_refactor(args: Tuple[str, str, str]) -> Dict[str, Any]:
    import subprocess
    repo_root, prop, patch = args
    rid = os.path.basename(os.path.dirname(patch))
    tmp = tempfile.mkdtemp(prefix="skr_")
    try:
        make_copy(repo_root, tmp)
        r = subprocess.run(["patch", "-p1", "-s", "-f", "-i", patch], cwd=tmp, capture_output=True, text=True)
        if r.returncode != 0:
            return {"id": rid, "skipped": "patch does not apply to this tree"}
        res = evaluate(prop, tmp)
        res["id"] = rid
        return res
    finally:
        shutil.rmtree(tmp, ignore_errors=True)


def run_refactors(repo_root: str, prop: str, jobs: int = 16) -> List[Dict[str, Any]]:
    """behaviour-preserving refactorings and property-preserving functional changes written by independent maintainers
    (refactors/<id>/patch.diff, features/<id>/patch.diff): nothing may be reported"""
    import glob
    patches = sorted(glob.glob(os.path.join(REFACTORS, "*", "patch.diff"))) + sorted(glob.glob(os.path.join(FEATURES, "*", "patch.diff")))
    if not patches:
        return []
    base = evaluate(prop, repo_root)
    out = []
    with concurrent.futures.ProcessPoolExecutor(max_workers=min(jobs, len(patches))) as ex:
        for res in ex.map(_run_refactor, [(repo_root, prop, p) for p in patches]):
            r: Dict[str, Any] = {"id": res["id"], "kind": "refactoring", "prop": prop}
            if "skipped" in res:
                r["status"] = "skipped"
                r["why"] = res["skipped"]
            else:
                new = [x for x in res["violated"] + res["unknown"] if x not in base["violated"] and x not in base["unknown"]]
                r["status"] = "FALSE-ALARM" if new else "silent"
                if new:
                    r["by"] = ["%s: %s — %s" % (h[0], h[1], res["detail"].get("%s|%s" % tuple(h), "")) for h in new][:3]
            out.append(r)
    return out


SEEDED = os.path.join(os.path.dirname(REFACTORS), "seeded")
# functional changes (speed-ups, better messages, hardening) that keep every property: must stay silent like the refactorings
FEATURES = os.path.join(os.path.dirname(REFACTORS), "features")


def tree_digest(repo_root: str) -> str:
    """digest of the analysed sources (skepticoin/**/*.py)"""
    import hashlib
    h = hashlib.sha256()
    base = os.path.join(repo_root, "skepticoin")
    for dp, dn, fn in sorted(os.walk(base)):
        dn.sort()
        for f in sorted(fn):
            if f.endswith(".py"):
                p_ = os.path.join(dp, f)
                h.update(os.path.relpath(p_, repo_root).encode() + b"\0" + hashlib.sha256(open(p_, "rb").read()).digest())
    return h.hexdigest()


def on_reference_tree(repo_root: str) -> bool:
    """the corpora were confirmed against the recorded tree: only there is a self-test miss a defect of the checker. On any other tree
    (somebody's change under review) a variant may interact with that change; the outcome is recorded but decides nothing."""
    ref = os.path.join(os.path.dirname(REFACTORS), "reference", "tree.sha256")
    try:
        return open(ref).read().split()[0] == tree_digest(repo_root)
    except OSError:
        return True


def run_seeded(repo_root: str, prop: str, jobs: int = 16) -> List[Dict[str, Any]]:
    """independently written breaking changes kept under seeded/<id>/ (confirmed to break the property at run time while the suite
    passes): the property's own check must report each of them"""
    import glob
    import json
    patches = []
    for mp in sorted(glob.glob(os.path.join(SEEDED, "*", "meta.json"))):
        try:
            meta = json.load(open(mp))
        except Exception:
            continue
        if meta.get("property") == prop and os.path.isfile(os.path.join(os.path.dirname(mp), "patch.diff")):
            patches.append(os.path.join(os.path.dirname(mp), "patch.diff"))
    if not patches:
        return []
    base = evaluate(prop, repo_root)
    out = []
    with concurrent.futures.ProcessPoolExecutor(max_workers=min(jobs, len(patches))) as ex:
        for res in ex.map(_run_refactor, [(repo_root, prop, p) for p in patches]):
            r: Dict[str, Any] = {"id": res["id"], "kind": "seeded-change", "prop": prop}
            if "skipped" in res:
                r["status"] = "skipped"
                r["why"] = res["skipped"]
            else:
                new = [x for x in res["violated"] if x not in base["violated"]]
                r["status"] = "detected" if new else "MISSED"
                r["by"] = ["%s: %s" % tuple(h) for h in new][:3]
            out.append(r)
    return out


def run_for_property(ck: Check, repo_root: str) -> None:
    """thorough tier: the corpus of this property. A missed seeded defect or a twin that fires is analysis-broken (exit 2)."""
    vs = corpus(ck.prop)
    res = run_all(repo_root, vs)
    missed = [r for r in res if r["status"] in ("MISSED", "unknown")]
    false = [r for r in res if r["status"] == "FALSE-ALARM"]
    skipped = [r for r in res if r["status"] == "skipped"]
    ck.selftest = {
        "variants": len(res),
        "seeded_defects_detected": len([r for r in res if r["status"] in ("detected", "detected-other-rule")]),
        "twins_silent": len([r for r in res if r["status"] == "silent"]),
        "skipped_anchor_not_found": [r["id"] for r in skipped],
        "results": res,
    }
    strict = on_reference_tree(repo_root)
    ck.selftest["on_reference_tree"] = strict
    report = ck.unknown if strict else (lambda rule, construct, detail, where="": ck.note("self-test (informative, tree differs from the recorded one): %s" % detail))
    rf = run_refactors(repo_root, ck.prop)
    ck.selftest["refactorings"] = len(rf)
    ck.selftest["refactorings_silent"] = len([r for r in rf if r["status"] == "silent"])
    ck.selftest["refactorings_skipped"] = [r["id"] for r in rf if r["status"] == "skipped"]
    for r in rf:
        if r["status"] == "FALSE-ALARM":
            report("selftest", "refactoring %s" % r["id"], "self-test failed: behaviour-preserving refactoring %s raised %s" % (r["id"], r.get("by")))
    sd = run_seeded(repo_root, ck.prop)
    ck.selftest["independent_changes"] = len(sd)
    ck.selftest["independent_changes_detected"] = len([r for r in sd if r["status"] == "detected"])
    ck.selftest["independent_changes_skipped"] = [r["id"] for r in sd if r["status"] == "skipped"]
    ck.selftest["independent_changes_results"] = sd
    for r in sd:
        if r["status"] == "MISSED":
            report("selftest", "independent change %s" % r["id"], "self-test failed: the kept breaking change %s is no longer reported" % r["id"])
    for r in missed:
        report("selftest", "seeded defect %s" % r["id"], "self-test failed: seeded defect %s was not reported (expected rule %s)" % (r["id"], r["expect"]))
    for r in false:
        report("selftest", "twin %s" % r["id"], "self-test failed: behaviour-preserving twin %s raised %s" % (r["id"], r.get("by")))


def main() -> int:
    import argparse
    ap = argparse.ArgumentParser()
    ap.add_argument("props", nargs="*")
    ap.add_argument("--repo", default="/repo")
    ap.add_argument("--only")
    a = ap.parse_args()
    vs = corpus()
    if a.props:
        vs = [v for v in vs if v["prop"] in [p.upper() for p in a.props]]
    if a.only:
        vs = [v for v in vs if a.only in v["id"]]
    res = run_all(a.repo, vs)
    bad = 0
    for r in res:
        flag = r["status"]
        if flag in ("MISSED", "FALSE-ALARM", "unknown", "skipped", "detected-other-rule"):
            bad += flag in ("MISSED", "FALSE-ALARM", "unknown")
            print("%-20s %-7s %-28s %s %s" % (flag, r["kind"], r["id"], r.get("expect") or "", r.get("why") or r.get("by") or ""))
    print("%d variants: %d detected, %d silent twins, %d problems" % (
        len(res), len([r for r in res if r["status"].startswith("detected")]), len([r for r in res if r["status"] == "silent"]), bad))
    return 1 if bad else 0


if __name__ == "__main__":
    sys.exit(main())
