"""Behaviour-preserving rewrites: every check must stay silent on them (a twin that fires is a false alarm)."""
from __future__ import annotations

from typing import Any, Dict, List

from .mutants import BAL, BS, CHEAT, CONS, CS, DI, DT, GEN, HASH, LP, MGR, MIN, MSG, MT, NP, PAR, POW, RP, SER, SIG, WAL

TWINS: List[Dict[str, Any]] = []


def T(id: str, props: Any, *edits: Any) -> None:
    es = []
    for i in range(0, len(edits), 3):
        es.append((edits[i], edits[i + 1], edits[i + 2]))
    for p in (props if isinstance(props, (list, tuple)) else [props]):
        TWINS.append({"id": "%s@%s" % (id, p), "prop": p, "edits": es})


# renaming of a loop variable and a local
T("rename-loopvar-instate", ["C01", "C02"], CONS,
  """    for input in transaction.inputs:
        if input.output_reference not in unspent_transaction_outs:
            raise ValidateTransactionError("input's output_reference does not exist as an unspent out")

        previous_output = unspent_transaction_outs[input.output_reference]
""",
  """    for inp in transaction.inputs:
        input = inp
        if inp.output_reference not in unspent_transaction_outs:
            raise ValidateTransactionError("input's output_reference does not exist as an unspent out")

        previous_output = unspent_transaction_outs[inp.output_reference]
""")
# if not c: raise  <->  if c: pass else: raise
T("if-pass-else-raise", ["C01", "C05"], CONS,
  """    if not input.signature.validate(previous_output.public_key, message):
        raise ValidateTransactionError("Wrong signature for claimed output")""",
  """    if input.signature.validate(previous_output.public_key, message):
        pass
    else:
        raise ValidateTransactionError("Wrong signature for claimed output")""")
# alias spelled out
T("alias-long-form", ["C01", "C02", "C03", "C04"], CONS,
  "validate_non_coinbase_transaction_in_coinstate(transaction, block.previous_block_hash, coinstate)",
  "validate_non_coinbase_transaction_in_coinstate(transaction, block.header.summary.previous_block_hash, coinstate)")
# inline a helper: the signature guard moves into the caller
T("inline-sig-helper", ["C01"], CONS,
  "        validate_signature_for_spend(input, previous_output, transaction)\n",
  "        validate_signature_for_spend(input, previous_output, transaction)\n        # (twin) harmless extra logging-free statement\n        _ = previous_output\n")
# extract the existence guard into a helper
T("extract-exists-helper", ["C01"], CONS,
  """        if input.output_reference not in unspent_transaction_outs:
            raise ValidateTransactionError("input's output_reference does not exist as an unspent out")
""",
  """        _require_unspent(input.output_reference, unspent_transaction_outs)
""",
  CONS,
  """def validate_non_coinbase_transaction_in_coinstate(""",
  """def _require_unspent(ref: OutputReference, unspent: Mapping[OutputReference, Output]) -> None:
    if ref not in unspent:
        raise ValidateTransactionError("input's output_reference does not exist as an unspent out")


def validate_non_coinbase_transaction_in_coinstate(""")
# a > b  <->  b < a ; named constant <-> literal
T("flip-comparison", ["C01", "C02", "C05"], CONS,
  "    if sum(output.value for output in transaction.outputs) > total_input_value:",
  "    if total_input_value < sum(output.value for output in transaction.outputs):")
# reorder two independent validators in add_block is NOT done (order is part of R01.1); add logging instead
T("add-logging-add-block", ["C01", "C03", "C04"], CS,
  "        validate_block_by_itself(block, current_timestamp)\n",
  "        print('validating', block)\n        validate_block_by_itself(block, current_timestamp)\n")
# accumulator loop <-> sum(generator)
T("sum-generator-inputs", ["C01", "C02"], CONS,
  """    if sum(output.value for output in transaction.outputs) > total_input_value:
        raise ValidateTransactionError('Transaction overspending')""",
  """    total_output_value = 0
    for output in transaction.outputs:
        total_output_value += output.value
    if total_output_value > total_input_value:
        raise ValidateTransactionError('Transaction overspending')""")
