"""Behaviour-preserving rewrites: every check must stay silent on them (a twin that fires is a false alarm)."""
from __future__ import annotations

from typing import Any, Dict, List

from .mutants import BAL, BS, CHEAT, CONS, CS, DI, DT, GEN, HASH, LP, MGR, MIN, MSG, MT, NP, PAR, POW, RP, SER, SIG, WAL

TWINS: List[Dict[str, Any]] = []


def T(id: str, props: Any, *edits: Any) -> None:
    es = []
    for i in range(0, len(edits), 3):
        es.append((edits[i], edits[i + 1], edits[i + 2]))
    for p in (props if isinstance(props, (list, tuple)) else [props]):
        TWINS.append({"id": "%s@%s" % (id, p), "prop": p, "edits": es})


# renaming of a loop variable and a local
T("rename-loopvar-instate", ["C01", "C02"], CONS,
  """    for input in transaction.inputs:
        if input.output_reference not in unspent_transaction_outs:
            raise ValidateTransactionError("input's output_reference does not exist as an unspent out")

        previous_output = unspent_transaction_outs[input.output_reference]
""",
  """    for inp in transaction.inputs:
        input = inp
        if inp.output_reference not in unspent_transaction_outs:
            raise ValidateTransactionError("input's output_reference does not exist as an unspent out")

        previous_output = unspent_transaction_outs[inp.output_reference]
""")
# if not c: raise  <->  if c: pass else: raise
T("if-pass-else-raise", ["C01", "C05"], CONS,
  """    if not input.signature.validate(previous_output.public_key, message):
        raise ValidateTransactionError("Wrong signature for claimed output")""",
  """    if input.signature.validate(previous_output.public_key, message):
        pass
    else:
        raise ValidateTransactionError("Wrong signature for claimed output")""")
# alias spelled out
T("alias-long-form", ["C01", "C02", "C03", "C04"], CONS,
  "validate_non_coinbase_transaction_in_coinstate(transaction, block.previous_block_hash, coinstate)",
  "validate_non_coinbase_transaction_in_coinstate(transaction, block.header.summary.previous_block_hash, coinstate)")
# inline a helper: the signature guard moves into the caller
T("inline-sig-helper", ["C01"], CONS,
  "        validate_signature_for_spend(input, previous_output, transaction)\n",
  "        validate_signature_for_spend(input, previous_output, transaction)\n        # (twin) harmless extra logging-free statement\n        _ = previous_output\n")
# extract the existence guard into a helper
T("extract-exists-helper", ["C01"], CONS,
  """        if input.output_reference not in unspent_transaction_outs:
            raise ValidateTransactionError("input's output_reference does not exist as an unspent out")
""",
  """        _require_unspent(input.output_reference, unspent_transaction_outs)
""",
  CONS,
  """def validate_non_coinbase_transaction_in_coinstate(""",
  """def _require_unspent(ref: OutputReference, unspent: Mapping[OutputReference, Output]) -> None:
    if ref not in unspent:
        raise ValidateTransactionError("input's output_reference does not exist as an unspent out")


def validate_non_coinbase_transaction_in_coinstate(""")
# a > b  <->  b < a ; named constant <-> literal
T("flip-comparison", ["C01", "C02", "C05"], CONS,
  "    if sum(output.value for output in transaction.outputs) > total_input_value:",
  "    if total_input_value < sum(output.value for output in transaction.outputs):")
# reorder two independent validators in add_block is NOT done (order is part of R01.1); add logging instead
T("add-logging-add-block", ["C01", "C03", "C04"], CS,
  "        validate_block_by_itself(block, current_timestamp)\n",
  "        print('validating', block)\n        validate_block_by_itself(block, current_timestamp)\n")
# accumulator loop <-> sum(generator)
T("sum-generator-inputs", ["C01", "C02"], CONS,
  """    if sum(output.value for output in transaction.outputs) > total_input_value:
        raise ValidateTransactionError('Transaction overspending')""",
  """    total_output_value = 0
    for output in transaction.outputs:
        total_output_value += output.value
    if total_output_value > total_input_value:
        raise ValidateTransactionError('Transaction overspending')""")

T("subsidy-shift-form", ["C16", "C02"], CONS, "    return INITIAL_SUBSIDY // (2 ** halvings)  # type: ignore", "    return INITIAL_SUBSIDY >> halvings  # type: ignore")
T("subsidy-literal-interval", ["C16", "C02"], CONS, "    halvings = height // SUBSIDY_HALVING_INTERVAL", "    halvings = height // 1_050_000")
T("subsidy-no-64-branch-reorder", ["C16"], CONS, "    if halvings >= 64:\n        return 0\n\n    return INITIAL_SUBSIDY // (2 ** halvings)  # type: ignore",
  "    if halvings < 64:\n        return INITIAL_SUBSIDY // (2 ** halvings)  # type: ignore\n\n    return 0")
T("range-two-ifs", ["C02"], CONS, "    if not (0 < value <= MAX_SASHIMI):\n        raise ValidationError(\"Value out of range.\")",
  "    if value <= 0:\n        raise ValidationError(\"Value out of range.\")\n    if value > MAX_SASHIMI:\n        raise ValidationError(\"Value out of range.\")")
T("reward-sides-swapped", ["C02", "C12"], CONS, "    if sum(output.value for output in transaction.outputs) > fees + subsidy:",
  "    if subsidy + fees < sum(output.value for output in transaction.outputs):")
T("height-guard-rearranged", ["C02", "C05"], CONS, "    if block.height != calculated_current_height:", "    if block.height - 1 != previous_height:")

T("clamp-min", ["C05"], CONS, "    if result > pow(2, 32 * 8) - 1:\n        result = pow(2, 32 * 8) - 1  # TBH we have bigger problems if the target has become \"anything goes\", but still..\n",
  "    result = min(result, 2 ** 256 - 1)\n")
T("retarget-literal", ["C05"], CONS, "    result = (i_previous_target * actual_time_passed) // DESIRED_TARGET_READJUSTMENT_TIMESPAN", "    result = (actual_time_passed * i_previous_target) // 1209600")
T("pow-lt-form", ["C05"], CONS, "    if hash >= target:\n        raise ValidatePOWError(\"hash >= target\")", "    if not hash < target:\n        raise ValidatePOWError(\"hash >= target\")")
T("calc-target-else", ["C05"], CONS,
  "        return calculate_new_target(previous_block.target, time_passed)\n\n    return previous_block.target",
  "        return calculate_new_target(previous_block.target, time_passed)\n    else:\n        return previous_block.target")
T("ts-flip", ["C05"], CONS, "    if block_summary.timestamp <= previous_block.timestamp:", "    if previous_block.timestamp >= block_summary.timestamp:")
T("future-flip", ["C05"], CONS, "    if block_header.summary.timestamp > current_timestamp + MAX_FUTURE_BLOCK_TIME:", "    if block_header.summary.timestamp - MAX_FUTURE_BLOCK_TIME > current_timestamp:")
T("evidence-local-rename", ["C05", "C06"], CONS,
  "    reconstructed_evidence = construct_pow_evidence(coinstate, block.header.summary, block.height, block.transactions)\n    if block.header.pow_evidence != reconstructed_evidence:",
  "    if construct_pow_evidence(coinstate, block.summary, block.header.summary.height, block.transactions) != block.pow_evidence:")

T("struct-to-bytes", ["C07", "C06", "C18"], DT, "        f.write(struct.pack(b\">I\", self.index))", "        f.write(self.index.to_bytes(4, 'big'))")
T("struct-network-order", ["C07", "C18"], DT, "        (index,) = struct.unpack(b\">I\", safe_read(f, 4))\n        return cls(hash, index)", "        (index,) = struct.unpack(b\"!I\", safe_read(f, 4))\n        return cls(hash, index)")
T("reader-kwargs", ["C07", "C06"], DT, "        return cls(summary_hash, chain_sample, block_hash)", "        return cls(summary_hash=summary_hash, block_hash=block_hash, chain_sample=chain_sample)")
T("reader-rename-locals", ["C07", "C06", "C18"], DT, "        hash = safe_read(f, 32)\n        (index,) = struct.unpack(b\">I\", safe_read(f, 4))\n        return cls(hash, index)",
  "        h = safe_read(f, 32)\n        (idx,) = struct.unpack(b\">I\", safe_read(f, 4))\n        return cls(h, idx)")
T("from-bytes-reader", ["C07", "C18"], DT, "        (value,) = struct.unpack(b\">Q\", safe_read(f, 8))\n", "        value = int.from_bytes(safe_read(f, 8), 'big')\n")
T("const-tag-literal", ["C07", "C18"], SIG, "        f.write(TYPE_COINBASE_DATA)", "        f.write(b'\\x01')")

T("bs-rename-row-vars", ["C08"], BS, "            (value, public_key, transaction_hash, seq) = row\n            transaction_builders[transaction_hash].outputs[seq] = Output(value, PublicKey.deserialize(public_key))",
  "            (val, pkb, txh, pos) = row\n            transaction_builders[txh].outputs[pos] = Output(val, PublicKey.deserialize(pkb))")
T("bs-select-reorder-consistent", ["C08"], BS, "        for row in self.sql(\"select value, public_key, transaction_hash, seq from transaction_outputs\"):\n            (value, public_key, transaction_hash, seq) = row",
  "        for row in self.sql(\"select seq, value, public_key, transaction_hash from transaction_outputs\"):\n            (seq, value, public_key, transaction_hash) = row")
T("bs-positional-summary", ["C08"], BS, "                                height=height,\n                                previous_block_hash=zeroify_nulls(previous_block_hash),\n                                merkle_root_hash=merkle_root_hash,\n                                timestamp=timestamp,\n                                target=target,\n                                nonce=nonce\n",
  "                                height, zeroify_nulls(previous_block_hash), merkle_root_hash, timestamp, target, nonce\n")
T("bs-alias-writer", ["C08"], BS, "                block.header.summary.height,\n", "                block.height,\n")

T("c18-add-checkpoint", ["C18"], CHEAT, "MAX_KNOWN_HASH_HEIGHT = max(KNOWN_HASHES.keys())", "KNOWN_HASHES[163500] = '0000aa' + 'b' * 58\nMAX_KNOWN_HASH_HEIGHT = max(KNOWN_HASHES.keys())")
T("c18-guard-flat-and", ["C18", "C01"], CONS,
  "        if block.height in KNOWN_HASHES:\n            if block.hash() != computer(KNOWN_HASHES[block.height]):\n                raise ValidationError(\"No forks allowed before block %s\" % MAX_KNOWN_HASH_HEIGHT)\n",
  "        if block.height in KNOWN_HASHES and block.hash() != computer(KNOWN_HASHES[block.height]):\n            raise ValidationError(\"No forks allowed before block %s\" % MAX_KNOWN_HASH_HEIGHT)\n")
T("c18-scrypt-literal", ["C18"], HASH, "N=1 << 15", "N=32768")
T("c18-vlq-rename", ["C18", "C07"], SER, "    mod = 0\n    for j in reversed(range(needed_bytes)):\n        div = pow(128, j)\n        f.write(struct.pack(b\"B\", (i % mod if mod else i) // div + (128 if j > 0 else 0)))\n        mod = div",
  "    modulus = 0\n    for k in reversed(range(needed_bytes)):\n        divisor = 128 ** k\n        f.write(struct.pack(b\"B\", (128 if k > 0 else 0) + (i % modulus if modulus else i) // divisor))\n        modulus = divisor")

T("c09-local-alias-names", ["C09", "C10"], RP, "        block: Block = message.data  # type: ignore\n\n        coinstate_prior = self.local_peer.chain_manager.coinstate\n",
  "        blk: Block = message.data  # type: ignore\n        block = blk\n\n        chain_manager = self.local_peer.chain_manager\n        coinstate_prior = chain_manager.coinstate\n")
T("c09-extra-logging", ["C09", "C10", "C20"], RP, "            coinstate_changed = coinstate_prior.add_block_no_validation(block)\n",
  "            coinstate_changed = coinstate_prior.add_block_no_validation(block)\n            self.local_peer.logger.debug(\"%15s applied\" % self.host)\n")
T("c09-early-return-dedupe", ["C09", "C10"], RP, "        if block_hash not in coinstate_prior.block_by_hash:\n\n            if block.header.summary.previous_block_hash not in coinstate_prior.block_by_hash:",
  "        if block_hash in coinstate_prior.block_by_hash:\n            return\n\n        if True:\n\n            if block.header.summary.previous_block_hash not in coinstate_prior.block_by_hash:")

T("c13-cleanup-loop-form", ["C13"], MGR, "        self.transaction_pool = [t for t in self.transaction_pool if is_valid(t)]", "        self.transaction_pool = [tx for tx in self.transaction_pool if is_valid(tx)]")
T("c13-rename-param", ["C13", "C09"], MGR, "    def set_coinstate(self, coinstate: CoinState, validated: bool = True) -> None:\n        with self.lock:\n            self.local_peer.logger.info(\"%15s ChainManager.set_coinstate(%s)\" % (\"\", coinstate))\n            self.coinstate = coinstate\n            self._cleanup_transaction_pool_for_coinstate(coinstate)\n            if validated:\n                self.last_known_valid_coinstate = coinstate",
  "    def set_coinstate(self, new_state: CoinState, validated: bool = True) -> None:\n        with self.lock:\n            self.coinstate = new_state\n            self._cleanup_transaction_pool_for_coinstate(new_state)\n            if validated:\n                self.last_known_valid_coinstate = new_state")

T("c12-time-local", ["C12"], MIN, "        increasing_time = max(int(time()), self.coinstate.head().timestamp + 1)", "        now = int(time())\n        parent_time = self.coinstate.head().timestamp\n        increasing_time = max(parent_time + 1, now)")
T("c12-local-state", ["C12"], MIN, "        self.coinstate = self.coinstate.add_block(block, int(time()))\n\n        self.network_thread.local_peer.chain_manager.set_coinstate(self.coinstate)",
  "        new_state = self.coinstate.add_block(block, int(time()))\n        self.coinstate = new_state\n\n        self.network_thread.local_peer.chain_manager.set_coinstate(new_state)")
T("c15-save-local-alias", ["C15"], "skepticoin/scripts/receive.py", "    wallet = open_or_init_wallet()\n    public_key = wallet.get_annotated_public_key(args.annotation)\n    save_wallet(wallet)",
  "    w = open_or_init_wallet()\n    wallet = w\n    public_key = w.get_annotated_public_key(args.annotation)\n    save_wallet(wallet)")
T("c15-dump-local-dict", ["C15"], WAL, "            keypairs={computer(k): computer(v) for (k, v) in d[\"keypairs\"].items()},", "            keypairs={computer(pub): computer(priv) for (pub, priv) in d[\"keypairs\"].items()},")

T("c14-rename-locals", ["C14"], WAL, "    collected_value = 0\n    inputs = []\n    newly_spent_outputs = []\n", "    collected_value = 0\n    inputs = []\n    newly_spent_outputs = []\n    # (twin) comment only\n")
T("c14-total-needed-local", ["C14"], WAL, "            if collected_value >= value + miners_fee:\n                outputs = [Output(value, output_public_key)]\n\n                if collected_value != value + miners_fee:",
  "            needed = value + miners_fee\n            if collected_value >= needed:\n                outputs = [Output(value, output_public_key)]\n\n                if needed != collected_value:")

T("c04-flip-work-compare", ["C04", "C03"], CS, "        elif block.get_total_work() > self.block_by_hash[self.current_chain_hash].get_total_work():", "        elif self.block_by_hash[self.current_chain_hash].get_total_work() < block.get_total_work():")
T("c04-if-order", ["C04", "C03"], CS, "        if self.current_chain_hash is None or self.current_chain_hash == block.previous_block_hash:", "        if block.header.summary.previous_block_hash == self.current_chain_hash or self.current_chain_hash is None:")
T("c03-inline-locals", ["C03", "C04"], CS, "        block_hash = block.hash()\n\n        block_by_hash: immutables.Map[bytes, Block] = self.block_by_hash.set(block_hash, block)", "        block_hash = block.hash()\n        bh = block_hash\n\n        block_by_hash: immutables.Map[bytes, Block] = self.block_by_hash.set(bh, block)")

T("c11-flip-guard", ["C11"], RP, "        if self.len is not None and self.len <= len(self.buffer):", "        if self.len is not None and len(self.buffer) >= self.len:")
T("c11-magic-literal", ["C11"], RP, "            if magic != MAGIC:", "            if magic != b'MAJI':")
T("c11-buffer-concat", ["C11"], RP, "        self.buffer += data\n", "        self.buffer = self.buffer + data\n")
T("c11-guard-order", ["C11"], RP, "        if not self.magic_read and len(self.buffer) >= 4:", "        if len(self.buffer) >= 4 and not self.magic_read:")

T("c19-connected-order", ["C19"], MGR, "        self.connected_peers[key] = remote_peer\n        if key in self.disconnected_peers:\n            del self.disconnected_peers[key]\n", "        if key in self.disconnected_peers:\n            del self.disconnected_peers[key]\n        self.connected_peers[key] = remote_peer\n")
T("c19-pop-form", ["C19"], MGR, "        self._sanity_check()\n\n        for disconnected_peer in list(self.disconnected_peers.values()):", "        self._sanity_check()\n        # twin\n\n        for disconnected_peer in list(self.disconnected_peers.values()):")
T("c19-backoff-shift", ["C19"], RP, "            TIME_TO_SECOND_CONNECTION_ATTEMPT * pow(2, self.ban_score),", "            TIME_TO_SECOND_CONNECTION_ATTEMPT * 2 ** self.ban_score,")

T("c20-merge-handlers", ["C20"], LP, "        except OSError as e:  # e.g. ConnectionRefusedError, \"Bad file descriptor\"\n            # no print-to-screen for this one\n            self.logger.info(\"%15s Disconnecting remote peer %s\" % (remote_peer.host, e))\n            self.disconnect(remote_peer, \"OS error\")\n\n",
  "")
T("c20-height-link-difference-form", ["C20", "C09", "C01"], RP,
  "            if block.height != previous_block.height + 1:\n", "            if block.height - previous_block.height != 1:\n")
T("c20-height-link-negated-equality", ["C20", "C09", "C04"], RP,
  "            if block.height != previous_block.height + 1:\n", "            if not (previous_block.height + 1 == block.header.summary.height):\n")
T("c20-height-link-inline-parent", ["C20", "C09"], RP,
  "            previous_block = coinstate_prior.block_by_hash[block.header.summary.previous_block_hash]\n            if block.height != previous_block.height + 1:\n",
  "            previous_block = self.local_peer.chain_manager.coinstate.block_by_hash[block.previous_block_hash]\n            if block.height != 1 + previous_block.height:\n")
T("c10-range-form", ["C10"], RP, "            for height in range(start_height, min(start_height + GET_BLOCKS_INVENTORY_SIZE, max_height))", "            for height in range(start_height, min(max_height, GET_BLOCKS_INVENTORY_SIZE + start_height))")
T("c20-dispatch-elif", ["C20", "C10"], RP, "        if message.data_type == DATA_BLOCK:\n            return self.handle_block_received(header, message)\n\n        if message.data_type == DATA_TRANSACTION:\n            return self.handle_transaction_received(header, message)\n",
  "        if message.data_type == DATA_BLOCK:\n            return self.handle_block_received(header, message)\n        elif message.data_type == DATA_TRANSACTION:\n            return self.handle_transaction_received(header, message)\n")

# ------------------------------------------------------------------------------------------- broad twins (all properties must stay silent)
ALL = ["C%02d" % i for i in range(1, 21)]
T("all-rename-param-consensus", ALL, CONS,
  "def validate_block_in_coinstate(block: Block, coinstate: CoinState) -> None:\n    if block.height <= MAX_KNOWN_HASH_HEIGHT:\n        if block.height in KNOWN_HASHES:\n            if block.hash() != computer(KNOWN_HASHES[block.height]):",
  "def validate_block_in_coinstate(blk: Block, state: CoinState) -> None:\n    block = blk\n    coinstate = state\n    if blk.height <= MAX_KNOWN_HASH_HEIGHT:\n        if blk.height in KNOWN_HASHES:\n            if blk.hash() != computer(KNOWN_HASHES[blk.height]):")
T("all-add-helper-and-logging", ALL, CONS,
  "def validate_sashimi_range(value: int) -> None:",
  "def _describe(value: int) -> str:\n    return \"%d sashimi\" % value\n\n\ndef validate_sashimi_range(value: int) -> None:\n    \"\"\"Reject amounts outside (0, MAX_SASHIMI].\"\"\"",
  RP, "        block_hash = block.hash()\n        self.remove_from_inventory(block_hash)\n", "        block_hash = block.hash()\n        self.local_peer.logger.debug(\"%15s block %s\" % (self.host, human(block_hash)))\n        self.remove_from_inventory(block_hash)\n",
  WAL, "    collected_value = 0\n    inputs = []\n", "    collected_value = 0\n    inputs = []  # inputs selected so far\n")
T("all-extract-horizon-helper", ALL, CONS,
  "def validate_block_in_coinstate(block: Block, coinstate: CoinState) -> None:\n    if block.height <= MAX_KNOWN_HASH_HEIGHT:\n        if block.height in KNOWN_HASHES:\n            if block.hash() != computer(KNOWN_HASHES[block.height]):\n                raise ValidationError(\"No forks allowed before block %s\" % MAX_KNOWN_HASH_HEIGHT)\n",
  "def _check_checkpoint(block: Block) -> None:\n    if block.height in KNOWN_HASHES:\n        if block.hash() != computer(KNOWN_HASHES[block.height]):\n            raise ValidationError(\"No forks allowed before block %s\" % MAX_KNOWN_HASH_HEIGHT)\n\n\ndef validate_block_in_coinstate(block: Block, coinstate: CoinState) -> None:\n    if block.height <= MAX_KNOWN_HASH_HEIGHT:\n        _check_checkpoint(block)\n")
T("all-inline-coinbase-instate", ALL, CONS,
  "    coinbase_transaction = block.transactions[0]\n    validate_coinbase_transaction_in_coinstate(coinbase_transaction, block, coinstate)\n\n    for transaction in block.transactions[1:]:\n        validate_non_coinbase_transaction_in_coinstate(transaction, block.previous_block_hash, coinstate)",
  "    validate_coinbase_transaction_in_coinstate(block.transactions[0], block, coinstate)\n\n    parent_hash = block.header.summary.previous_block_hash\n    for tx in block.transactions[1:]:\n        validate_non_coinbase_transaction_in_coinstate(tx, parent_hash, coinstate)")
T("all-manager-refactor", ALL, MGR,
  "    def get_state(self) -> Tuple[CoinState, List[Transaction]]:\n        with self.lock:\n            return self.coinstate, self.transaction_pool",
  "    def get_state(self) -> Tuple[CoinState, List[Transaction]]:\n        with self.lock:\n            state = self.coinstate\n            pool = self.transaction_pool\n            return state, pool")
T("all-new-unrelated-module-code", ALL, "skepticoin/utils.py", "def calc_work(target: bytes) -> int:", "def describe_block(block: Block) -> str:\n    return \"%s (%d transactions)\" % (block_filename(block), len(block.transactions))\n\n\ndef calc_work(target: bytes) -> int:")
T("all-datatypes-repr-and-order", ALL, DT,
  "    def __repr__(self) -> str:\n        return \"Output(%s, %s)\" % (self.value, self.public_key)\n", "    def __repr__(self) -> str:\n        return \"Output(value=%s, key=%s)\" % (self.value, self.public_key)\n\n    def is_dust(self) -> bool:\n        return self.value < 10\n")
T("all-blockstore-local-names", ALL, BS,
  "        cur = self.connection.cursor()\n        cur.execute('BEGIN TRANSACTION')", "        cursor = self.connection.cursor()\n        cur = cursor\n        cur.execute('BEGIN TRANSACTION')")

T("c11-drain-loop", ["C11", "C20"], RP,
  """        self.buffer += data

        if not self.magic_read and len(self.buffer) >= 4:
            magic = self.buffer[:4]
            if magic != MAGIC:
                raise Exception("Insufficient magic")
            else:
                self.magic_read = True

            self.buffer = self.buffer[4:]

        if self.len is None and len(self.buffer) >= 4:
            (self.len,) = struct.unpack(b">I", self.buffer[:4])

            if self.len > MAX_MESSAGE_SIZE:  # type: ignore
                raise Exception("len > MAX_MESSAGE_SIZE")

            self.buffer = self.buffer[4:]

        if self.len is not None and self.len <= len(self.buffer):
            self.handle_message_data(self.buffer[:self.len])

            self.buffer = self.buffer[self.len:]
            self.magic_read = False
            self.len = None
            self.receive(b"")  # recurse to repeat (multiple messages could be received in a single socket read)
""",
  """        self.buffer += data

        while True:
            if not self.magic_read and len(self.buffer) >= 4:
                magic = self.buffer[:4]
                if magic != MAGIC:
                    raise Exception("Insufficient magic")
                else:
                    self.magic_read = True

                self.buffer = self.buffer[4:]

            if self.len is None and len(self.buffer) >= 4:
                (self.len,) = struct.unpack(b">I", self.buffer[:4])

                if self.len > MAX_MESSAGE_SIZE:  # type: ignore
                    raise Exception("len > MAX_MESSAGE_SIZE")

                self.buffer = self.buffer[4:]

            if self.len is not None and self.len <= len(self.buffer):
                self.handle_message_data(self.buffer[:self.len])

                self.buffer = self.buffer[self.len:]
                self.magic_read = False
                self.len = None
                continue

            break
""")
T("c17-proof-no-lambda", ["C17"], MT, """    if index_of_interest >= merkle_node.children[1].index:
        other, recurse_into = merkle_node.children
        reconstruct = lambda ot, rec: (ot, rec) # noqa
    else:
        recurse_into, other = merkle_node.children
        reconstruct = lambda ot, rec: (rec, ot) # noqa

    simplified_other = MerkleNode(other.index, (), other.hash())
    recursion_result = get_proof(recurse_into, index_of_interest)

    return MerkleNode(merkle_node.index, reconstruct(simplified_other, recursion_result))  # type: ignore""",
"""    go_right = index_of_interest >= merkle_node.children[1].index
    if go_right:
        other, recurse_into = merkle_node.children
    else:
        recurse_into, other = merkle_node.children

    simplified_other = MerkleNode(other.index, (), other.hash())
    recursion_result = get_proof(recurse_into, index_of_interest)

    if go_right:
        return MerkleNode(merkle_node.index, (simplified_other, recursion_result))
    return MerkleNode(merkle_node.index, (recursion_result, simplified_other))""")
