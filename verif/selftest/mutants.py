"""Seeded defects: each must be reported (by the expected rule) when applied to a scratch copy. Text edits anchored on a
unique fragment; a fragment that no longer exists makes the variant 'skipped', never a failure of the property."""
from __future__ import annotations

from typing import Any, Dict, List

MUTANTS: List[Dict[str, Any]] = []

CONS = "skepticoin/consensus.py"
DT = "skepticoin/datatypes.py"
SIG = "skepticoin/signing.py"
BAL = "skepticoin/balances.py"
CS = "skepticoin/coinstate.py"
SER = "skepticoin/serialization.py"
RP = "skepticoin/networking/remote_peer.py"
MGR = "skepticoin/networking/manager.py"
LP = "skepticoin/networking/local_peer.py"
MSG = "skepticoin/networking/messages.py"
DI = "skepticoin/networking/disk_interface.py"
NP = "skepticoin/networking/params.py"
BS = "skepticoin/blockstore.py"
WAL = "skepticoin/wallet.py"
MIN = "skepticoin/mining.py"
PAR = "skepticoin/params.py"
MT = "skepticoin/merkletree.py"
POW = "skepticoin/pow.py"
HASH = "skepticoin/hash.py"
CHEAT = "skepticoin/cheating.py"
GEN = "skepticoin/genesis.py"


def M(id: str, prop: str, expect: Any, *edits: Any) -> None:
    es = []
    for i in range(0, len(edits), 3):
        es.append((edits[i], edits[i + 1], edits[i + 2]))
    MUTANTS.append({"id": id, "prop": prop, "expect": expect, "edits": es})


# ----------------------------------------------------------------------------------------------- C01
M("c01-drop-sigcheck", "C01", "R01.4", CONS, "        validate_signature_for_spend(input, previous_output, transaction)\n", "")
M("c01-head-state", "C01", "R01.2", CONS,
  "validate_non_coinbase_transaction_in_coinstate(transaction, block.previous_block_hash, coinstate)",
  "validate_non_coinbase_transaction_in_coinstate(transaction, coinstate.current_chain_hash, coinstate)")
M("c01-slice2", "C01", ["R01.2", "R01.8"], CONS,
  "    for transaction in block.transactions[1:]:\n        validate_non_coinbase_transaction_in_coinstate(",
  "    for transaction in block.transactions[2:]:\n        validate_non_coinbase_transaction_in_coinstate(")
M("c01-drop-exists", "C01", "R01.3", CONS,
  "        if input.output_reference not in unspent_transaction_outs:\n            raise ValidateTransactionError(\"input's output_reference does not exist as an unspent out\")\n",
  "")
M("c01-signable-no-outputs", "C01", "R01.5", DT, "            outputs=self.outputs,\n        )", "            outputs=[],\n        )")
M("c01-signable-first-input", "C01", "R01.5", DT, "for input in self.inputs],\n            outputs=self.outputs", "for input in self.inputs[:1]],\n            outputs=self.outputs")
M("c01-badsig-true", "C01", "R01.6", SIG, "        except ecdsa.keys.BadSignatureError:\n            return False", "        except ecdsa.keys.BadSignatureError:\n            return True")
M("c01-placeholder-validates", "C01", "R01.6", SIG,
  "    def __repr__(self) -> str:\n        return \"SignableEquivalent()\"\n",
  "    def __repr__(self) -> str:\n        return \"SignableEquivalent()\"\n\n    def validate(self, public_key: Any, message: bytes) -> bool:\n        return True\n")
M("c01-seen-reset", "C01", "R01.7", CONS,
  "    seen_output_references = set()\n    for transaction in transactions:\n        for input in transaction.inputs:",
  "    for transaction in transactions:\n        seen_output_references = set()\n        for input in transaction.inputs:")
M("c01-validate-after-apply", "C01", "R01.1", CS,
  "        validate_block_by_itself(block, current_timestamp)\n        validate_block_in_coinstate(block, self)\n\n        return self.add_block_no_validation(block)",
  "        result = self.add_block_no_validation(block)\n        validate_block_by_itself(block, current_timestamp)\n        validate_block_in_coinstate(block, self)\n\n        return result")
M("c01-validator-mutates", "C01", "R01.9", CONS,
  "    coinbase_transaction = block.transactions[0]\n    validate_coinbase_transaction_in_coinstate(coinbase_transaction, block, coinstate)",
  "    coinbase_transaction = block.transactions[0]\n    coinstate.current_chain_hash = block.hash()\n    validate_coinbase_transaction_in_coinstate(coinbase_transaction, block, coinstate)")
M("c01-apply-coinbase-flip", "C01", "R01.10", BAL,
  "        if not is_coinbase:\n            for input in transaction.inputs:\n                # we don't",
  "        if is_coinbase:\n            for input in transaction.inputs:\n                # we don't")
M("c01-eq-no-index", "C01", "R01.11", DT, "        return self.hash == other.hash and self.index == other.index", "        return self.hash == other.hash")
M("c01-bypass-odd-height", "C01", "R01.2", CONS,
  "    for transaction in block.transactions[1:]:\n        validate_non_coinbase_transaction_in_coinstate(",
  "    if block.height % 2:\n        return\n\n    for transaction in block.transactions[1:]:\n        validate_non_coinbase_transaction_in_coinstate(")
M("c01-drop-insiginstate", "C01", "R01.1", CS, "        validate_block_in_coinstate(block, self)\n", "")
M("c01-wrong-key", "C01", "R01.4", CONS,
  "    if not input.signature.validate(previous_output.public_key, message):",
  "    if not input.signature.validate(input.signature.public_key if hasattr(input.signature, 'public_key') else previous_output.public_key, message):")
M("c01-sign-whole-serialize", "C01", "R01.4", CONS,
  "    message = transaction.signable_equivalent().serialize()\n    assert input.signature\n    if not input.signature.validate",
  "    message = input.signable_equivalent().serialize()\n    assert input.signature\n    if not input.signature.validate")
M("c01-thinair-dropped", "C01", "R01.7", CONS,
  "        if input.output_reference.references_thin_air():\n            raise ValidateTransactionError(\"Coinbase-like null-reference in non-coinbase transaction.\")\n", "")
M("c01-swallow-instate", "C01", "R01.1", CS,
  "        validate_block_in_coinstate(block, self)\n",
  "        try:\n            validate_block_in_coinstate(block, self)\n        except Exception:\n            pass\n")
M("c01-dup-check-skipped-for-small", "C01", "R01.7", CONS,
  "    validate_no_duplicate_output_references_in_transactions(block.transactions[1:])\n\n    if block.header",
  "    if len(block.transactions) > 2:\n        validate_no_duplicate_output_references_in_transactions(block.transactions[1:])\n\n    if block.header")
M("c01-notsig-default-false", "C01", "R01.7", SIG,
  "        that may actually be used to verify public keys should return False here.\"\"\"\n        return True",
  "        that may actually be used to verify public keys should return False here.\"\"\"\n        return False")
