"""Seeded defects: each must be reported (by the expected rule) when applied to a scratch copy. Text edits anchored on a
unique fragment; a fragment that no longer exists makes the variant 'skipped', never a failure of the property."""
from __future__ import annotations

from typing import Any, Dict, List

MUTANTS: List[Dict[str, Any]] = []

CONS = "skepticoin/consensus.py"
DT = "skepticoin/datatypes.py"
SIG = "skepticoin/signing.py"
BAL = "skepticoin/balances.py"
CS = "skepticoin/coinstate.py"
SER = "skepticoin/serialization.py"
RP = "skepticoin/networking/remote_peer.py"
MGR = "skepticoin/networking/manager.py"
LP = "skepticoin/networking/local_peer.py"
MSG = "skepticoin/networking/messages.py"
DI = "skepticoin/networking/disk_interface.py"
NP = "skepticoin/networking/params.py"
BS = "skepticoin/blockstore.py"
WAL = "skepticoin/wallet.py"
MIN = "skepticoin/mining.py"
PAR = "skepticoin/params.py"
MT = "skepticoin/merkletree.py"
POW = "skepticoin/pow.py"
HASH = "skepticoin/hash.py"
CHEAT = "skepticoin/cheating.py"
GEN = "skepticoin/genesis.py"


def MP(id: str, prop: str, expect: Any, patch: str, *edits: Any) -> None:
    """a defect seeded INSIDE a construct that only exists after a followed refactoring / feature patch was applied (path relative to
    /verif): the canonicalisations that make the patch silent must not hide the defect"""
    es = []
    for i in range(0, len(edits), 3):
        es.append((edits[i], edits[i + 1], edits[i + 2]))
    MUTANTS.append({"id": id, "prop": prop, "expect": expect, "edits": es, "patch": patch})


def M(id: str, prop: str, expect: Any, *edits: Any) -> None:
    es = []
    for i in range(0, len(edits), 3):
        es.append((edits[i], edits[i + 1], edits[i + 2]))
    MUTANTS.append({"id": id, "prop": prop, "expect": expect, "edits": es})


# ----------------------------------------------------------------------------------------------- C01
M("c01-drop-sigcheck", "C01", "R01.4", CONS, "        validate_signature_for_spend(input, previous_output, transaction)\n", "")
M("c01-head-state", "C01", "R01.2", CONS,
  "validate_non_coinbase_transaction_in_coinstate(transaction, block.previous_block_hash, coinstate)",
  "validate_non_coinbase_transaction_in_coinstate(transaction, coinstate.current_chain_hash, coinstate)")
M("c01-slice2", "C01", ["R01.2", "R01.8"], CONS,
  "    for transaction in block.transactions[1:]:\n        validate_non_coinbase_transaction_in_coinstate(",
  "    for transaction in block.transactions[2:]:\n        validate_non_coinbase_transaction_in_coinstate(")
M("c01-drop-exists", "C01", "R01.3", CONS,
  "        if input.output_reference not in unspent_transaction_outs:\n            raise ValidateTransactionError(\"input's output_reference does not exist as an unspent out\")\n",
  "")
M("c01-signable-no-outputs", "C01", "R01.5", DT, "            outputs=self.outputs,\n        )", "            outputs=[],\n        )")
M("c01-signable-first-input", "C01", "R01.5", DT, "for input in self.inputs],\n            outputs=self.outputs", "for input in self.inputs[:1]],\n            outputs=self.outputs")
M("c01-badsig-true", "C01", "R01.6", SIG, "        except ecdsa.keys.BadSignatureError:\n            return False", "        except ecdsa.keys.BadSignatureError:\n            return True")
M("c01-placeholder-validates", "C01", "R01.6", SIG,
  "    def __repr__(self) -> str:\n        return \"SignableEquivalent()\"\n",
  "    def __repr__(self) -> str:\n        return \"SignableEquivalent()\"\n\n    def validate(self, public_key: Any, message: bytes) -> bool:\n        return True\n")
M("c01-seen-reset", "C01", "R01.7", CONS,
  "    seen_output_references = set()\n    for transaction in transactions:\n        for input in transaction.inputs:",
  "    for transaction in transactions:\n        seen_output_references = set()\n        for input in transaction.inputs:")
M("c01-validate-after-apply", "C01", "R01.1", CS,
  "        validate_block_by_itself(block, current_timestamp)\n        validate_block_in_coinstate(block, self)\n\n        return self.add_block_no_validation(block)",
  "        result = self.add_block_no_validation(block)\n        validate_block_by_itself(block, current_timestamp)\n        validate_block_in_coinstate(block, self)\n\n        return result")
M("c01-validator-mutates", "C01", "R01.9", CONS,
  "    coinbase_transaction = block.transactions[0]\n    validate_coinbase_transaction_in_coinstate(coinbase_transaction, block, coinstate)",
  "    coinbase_transaction = block.transactions[0]\n    coinstate.current_chain_hash = block.hash()\n    validate_coinbase_transaction_in_coinstate(coinbase_transaction, block, coinstate)")
M("c01-apply-coinbase-flip", "C01", "R01.10", BAL,
  "        if not is_coinbase:\n            for input in transaction.inputs:\n                # we don't",
  "        if is_coinbase:\n            for input in transaction.inputs:\n                # we don't")
M("c01-eq-no-index", "C01", "R01.11", DT, "        return self.hash == other.hash and self.index == other.index", "        return self.hash == other.hash")
M("c01-bypass-odd-height", "C01", "R01.2", CONS,
  "    for transaction in block.transactions[1:]:\n        validate_non_coinbase_transaction_in_coinstate(",
  "    if block.height % 2:\n        return\n\n    for transaction in block.transactions[1:]:\n        validate_non_coinbase_transaction_in_coinstate(")
M("c01-drop-insiginstate", "C01", "R01.1", CS, "        validate_block_in_coinstate(block, self)\n", "")
M("c01-wrong-key", "C01", "R01.4", CONS,
  "    if not input.signature.validate(previous_output.public_key, message):",
  "    if not input.signature.validate(input.signature.public_key if hasattr(input.signature, 'public_key') else previous_output.public_key, message):")
M("c01-sign-whole-serialize", "C01", "R01.4", CONS,
  "    message = transaction.signable_equivalent().serialize()\n    assert input.signature\n    if not input.signature.validate",
  "    message = input.signable_equivalent().serialize()\n    assert input.signature\n    if not input.signature.validate")
M("c01-thinair-dropped", "C01", "R01.7", CONS,
  "        if input.output_reference.references_thin_air():\n            raise ValidateTransactionError(\"Coinbase-like null-reference in non-coinbase transaction.\")\n", "")
M("c01-swallow-instate", "C01", "R01.1", CS,
  "        validate_block_in_coinstate(block, self)\n",
  "        try:\n            validate_block_in_coinstate(block, self)\n        except Exception:\n            pass\n")
M("c01-dup-check-skipped-for-small", "C01", "R01.7", CONS,
  "    validate_no_duplicate_output_references_in_transactions(block.transactions[1:])\n\n    if block.header",
  "    if len(block.transactions) > 2:\n        validate_no_duplicate_output_references_in_transactions(block.transactions[1:])\n\n    if block.header")
M("c01-notsig-default-false", "C01", "R01.7", SIG,
  "        that may actually be used to verify public keys should return False here.\"\"\"\n        return True",
  "        that may actually be used to verify public keys should return False here.\"\"\"\n        return False")

# ----------------------------------------------------------------------------------------------- C02
M("c02-fees-head-state", "C02", "R02.1", CONS,
  "    unspent_transaction_outs = coinstate.unspent_transaction_outs_by_hash[block.header.summary.previous_block_hash]\n    fees = get_block_fees(",
  "    unspent_transaction_outs = coinstate.unspent_transaction_outs_by_hash[coinstate.current_chain_hash]\n    fees = get_block_fees(")
M("c02-fees-minus-subsidy", "C02", "R02.1", CONS, "> fees + subsidy:", "> fees - subsidy:")
M("c02-reward-plus-one", "C02", "R02.1", CONS, "> fees + subsidy:", "> fees + subsidy + 1:")
M("c02-fee-drop-outputs", "C02", "R02.2", CONS, "    return total_input_value - total_output_value", "    return total_input_value")
M("c02-drop-overspend", "C02", "R02.3", CONS,
  "    if sum(output.value for output in transaction.outputs) > total_input_value:\n        raise ValidateTransactionError('Transaction overspending')\n", "")
M("c02-overspend-plus-one", "C02", "R02.3", CONS,
  "    if sum(output.value for output in transaction.outputs) > total_input_value:",
  "    if sum(output.value for output in transaction.outputs) > total_input_value + 1:")
M("c02-zero-allowed", "C02", "R02.4", CONS, "    if not (0 < value <= MAX_SASHIMI):", "    if not (0 <= value <= MAX_SASHIMI):")
M("c02-drop-total-range", "C02", "R02.4", CONS, "    validate_sashimi_range(total_transaction_output_value)\n", "")
M("c02-coinbase-ge1", "C02", "R02.5", CONS, "    if not len(transaction.inputs) == 1:", "    if not len(transaction.inputs) >= 1:")
M("c02-drop-height-guard", "C02", "R02.6", CONS,
  "    if block.height != calculated_current_height:\n        raise ValidateBlockHeaderError(\"Block's reported height incorrect.\")\n", "")
M("c02-float-subsidy", "C02", "R02.7", CONS, "    return INITIAL_SUBSIDY // (2 ** halvings)  # type: ignore", "    return int(INITIAL_SUBSIDY / (2 ** halvings))  # type: ignore")
M("c02-fees-all-transactions", "C02", "R02.1", CONS, "    fees = get_block_fees(block.transactions[1:], unspent_transaction_outs)", "    fees = get_block_fees(block.transactions, unspent_transaction_outs)")
M("c02-skip-some-outputs", "C02", "R02.4", CONS,
  "    for output in transaction.outputs:\n        validate_sashimi_range(output.value)",
  "    for output in transaction.outputs[:-1]:\n        validate_sashimi_range(output.value)")
M("c02-reward-only-first-output", "C02", "R02.1", CONS,
  "    if sum(output.value for output in transaction.outputs) > fees + subsidy:",
  "    if transaction.outputs[0].value > fees + subsidy:")
M("c02-subsidy-parent-height", "C02", "R02.1", CONS, "    subsidy = get_block_subsidy(block.height)", "    subsidy = get_block_subsidy(previous_height)")
M("c02-coinbase-instate-skipped-small", "C02", "R02.1", CONS,
  "    validate_coinbase_transaction_in_coinstate(coinbase_transaction, block, coinstate)",
  "    if len(block.transactions) > 1:\n        validate_coinbase_transaction_in_coinstate(coinbase_transaction, block, coinstate)")
M("c02-thinair-any-index", "C02", "R02.5", DT, "        return (self.hash == b'\\x00' * 32) and (self.index == 0)", "        return (self.hash == b'\\x00' * 32)")

# ----------------------------------------------------------------------------------------------- C16
M("c16-five-four", "C16", "R16", PAR, "FIVE = (10 // 2)", "FIVE = (10 // 2) - 1")
M("c16-interval-plus-one", "C16", "R16", PAR, "SUBSIDY_HALVING_INTERVAL = 210_000 * FIVE", "SUBSIDY_HALVING_INTERVAL = 210_000 * FIVE + 1")
M("c16-halvings-gt", "C16", "R16", CONS, "    return INITIAL_SUBSIDY // (2 ** halvings)  # type: ignore", "    return INITIAL_SUBSIDY >> (halvings + 1)  # type: ignore")
M("c16-special-height", "C16", "R16.4", CONS, "    halvings = height // SUBSIDY_HALVING_INTERVAL\n",
  "    if height == 123456:\n        return 2 * INITIAL_SUBSIDY\n    halvings = height // SUBSIDY_HALVING_INTERVAL\n")
M("c16-max-off-by-one", "C16", "R16", PAR, "MAX_SASHIMI = 2_099_999_986_350_000", "MAX_SASHIMI = 2_099_999_986_350_001")
M("c16-doc-edit", "C16", "R16.2", "docs/params.md", "* 1,050,000 block halving interval", "* 1,050,001 block halving interval")
M("c16-early-zero", "C16", "R16.4", CONS, "    if halvings >= 64:\n        return 0", "    if halvings >= 20:\n        return 0")
M("c16-untested-range", "C16", "R16.4", CONS, "    if halvings >= 64:\n        return 0",
  "    if halvings >= 64:\n        return 0\n\n    if height > 5_000_000:\n        return INITIAL_SUBSIDY // (2 ** (halvings - 1))")
M("c16-modulo-use", "C16", ["R16.4", "R16"], CONS, "    halvings = height // SUBSIDY_HALVING_INTERVAL\n",
  "    halvings = height // SUBSIDY_HALVING_INTERVAL\n    if height % 1000003 == 7:\n        return INITIAL_SUBSIDY\n")

# ----------------------------------------------------------------------------------------------- C05
M("c05-pow-gt", "C05", "R05.1", CONS, "    if hash >= target:", "    if hash > target:")
M("c05-ts-lt", "C05", "R05.2", CONS, "    if block_summary.timestamp <= previous_block.timestamp:", "    if block_summary.timestamp < previous_block.timestamp:")
M("c05-future-7200", "C05", "R05.2", PAR, "MAX_FUTURE_BLOCK_TIME = 30", "MAX_FUTURE_BLOCK_TIME = 7200")
M("c05-target-eq", "C05", "R05.4", CONS, "    if block_summary.target != calculated_target:", "    if block_summary.target == calculated_target:")
M("c05-target-dropped", "C05", "R05.4", CONS,
  "    if block_summary.target != calculated_target:\n        raise ValidateBlockHeaderError(\"Block's reported target incorrect\")\n", "")
M("c05-retarget-mod1", "C05", "R05.4", CONS, "    if height % BLOCKS_BETWEEN_TARGET_READJUSTMENT == 0:", "    if height % BLOCKS_BETWEEN_TARGET_READJUSTMENT == 1:")
M("c05-interval-off", "C05", "R05.4", CONS, "        interval_start_height = height - BLOCKS_BETWEEN_TARGET_READJUSTMENT\n", "        interval_start_height = height - BLOCKS_BETWEEN_TARGET_READJUSTMENT + 1\n")
M("c05-interval-head-chain", "C05", "R05.4", CONS,
  "        interval_start_block = coinstate.block_by_height_by_hash[previous_block.hash()][interval_start_height]",
  "        interval_start_block = coinstate.by_height_at_head()[interval_start_height]")
M("c05-div-first", "C05", "R05.5", CONS,
  "    result = (i_previous_target * actual_time_passed) // DESIRED_TARGET_READJUSTMENT_TIMESPAN",
  "    result = (i_previous_target // DESIRED_TARGET_READJUSTMENT_TIMESPAN) * actual_time_passed")
M("c05-signed", "C05", "R05.5", CONS, "    i_previous_target = int.from_bytes(previous_target, byteorder='big', signed=False)",
  "    i_previous_target = int.from_bytes(previous_target, byteorder='big', signed=True)")
M("c05-no-clamp", "C05", "R05.5", CONS,
  "    if result > pow(2, 32 * 8) - 1:\n        result = pow(2, 32 * 8) - 1  # TBH", "    if False:\n        result = pow(2, 32 * 8) - 1  # TBH")
M("c05-little-endian", "C05", "R05.5", CONS, "    return result.to_bytes(32, byteorder='big', signed=False)", "    return result.to_bytes(32, byteorder='little', signed=False)")
M("c05-drop-cb-height", "C05", "R05.6", CONS,
  "    if coinbase_transaction.inputs[0].signature.height != block.height:  # type: ignore\n        raise ValidateBlockError(\"block.height != coinbase.height\")\n", "")
M("c05-evidence-summary-only", "C05", "R05.7", CONS,
  "    if block.header.pow_evidence != reconstructed_evidence:", "    if block.header.pow_evidence.summary_hash != reconstructed_evidence.summary_hash:")
M("c05-select-height-4", "C05", "R05.7", POW, "    base = int.from_bytes(input_hash[:8], byteorder='big', signed=False)\n    return base % current_height",
  "    base = int.from_bytes(input_hash[:4], byteorder='big', signed=False)\n    return base % current_height")
M("c05-miner-prev-target", "C05", "R05.8", CONS, "        target=calc_target(coinstate, height, current_timestamp, previous_block),", "        target=previous_block.target,")
M("c05-evidence-tx-slice", "C05", "R05.7", CONS, "    serialized_transactions = serialize_list(transactions)", "    serialized_transactions = serialize_list(transactions[:1])")
M("c05-sample-head-chain", "C05", "R05.7", CONS, "            return coinstate.block_by_height_by_hash[summary.previous_block_hash][h]",
  "            return coinstate.by_height_at_head()[h]")
M("c05-retarget-span", "C05", "R05.5", PAR, "DESIRED_TARGET_READJUSTMENT_TIMESPAN = BLOCKS_BETWEEN_TARGET_READJUSTMENT * DESIRED_BLOCK_TIMESPAN",
  "DESIRED_TARGET_READJUSTMENT_TIMESPAN = BLOCKS_BETWEEN_TARGET_READJUSTMENT * DESIRED_BLOCK_TIMESPAN + 60")
M("c05-header-check-skipped", "C05", "R05.1", CONS, "    validate_block_header_by_itself(block.header, current_timestamp)\n\n    if len(block.transactions) == 0:",
  "    if len(block.transactions) == 0:")
M("c05-summary-instate-skipped", "C05", ["R05.2", "R05.3", "R05.4"], CONS, "    validate_block_summary_in_coinstate(block.header.summary, coinstate)\n", "")
M("c05-scrypt-salt", "C05", "R05.7", CONS, "    return scrypt(summary.serialize(), current_height.to_bytes(8, byteorder='big'))", "    return scrypt(summary.serialize(), b'')")
M("c05-miner-height", "C05", "R05.8", CONS, "    previous_block = coinstate.head()\n    height = previous_block.height + 1\n    return BlockSummary(",
  "    previous_block = coinstate.head()\n    height = previous_block.height\n    return BlockSummary(")

# ----------------------------------------------------------------------------------------------- C07
M("c07-swap-reader-lines", "C07", "R07.1", DT,
  "        previous_block_hash = safe_read(f, 32)\n        merkle_root_hash = safe_read(f, 32)\n",
  "        merkle_root_hash = safe_read(f, 32)\n        previous_block_hash = safe_read(f, 32)\n")
M("c07-reader-little-endian", "C07", "R07.1", DT, "        (index,) = struct.unpack(b\">I\", safe_read(f, 4))\n        return cls(hash, index)",
  "        (index,) = struct.unpack(b\"<I\", safe_read(f, 4))\n        return cls(hash, index)")
M("c07-ctor-args-swapped", "C07", "R07.1", DT, "        return cls(summary_hash, chain_sample, block_hash)", "        return cls(summary_hash, block_hash, chain_sample)")
M("c07-extra-tag", "C07", "R07.4", SIG,
  "        if type_indicator == TYPE_SECP256k1:\n            return SECP256k1Signature.stream_deserialize(f)\n",
  "        if type_indicator == TYPE_SECP256k1:\n            return SECP256k1Signature.stream_deserialize(f)\n\n        if type_indicator == b'\\x03':\n            return SECP256k1Signature.stream_deserialize(f)\n")
M("c07-span-short", "C07", "R07.5", DT, "        cached_hash = sha256d(f.read(end_position - start_position))\n\n        return cls(inputs, outputs, cached_hash)",
  "        cached_hash = sha256d(f.read(end_position - start_position - 1))\n\n        return cls(inputs, outputs, cached_hash)")
M("c07-reintroduce-d1", "C07", "R07.6", SER,
  "    if canonical.getvalue() != b\"\".join(consumed):\n        raise DeserializationError(\"Non-canonical VLQ encoding\")\n", "")
M("c07-writer-drops-nonce", "C07", "R07.1", DT, "        f.write(self.target)\n        f.write(struct.pack(b\">I\", self.nonce))\n", "        f.write(self.target)\n")
M("c07-lenient-tx-version", "C07", "R07.1", DT,
  "        if safe_read(f, 1) != b'\\x00':\n            raise ValueError(\"Current version supports only version 0 transactions\")\n",
  "        safe_read(f, 1)\n")
M("c07-block-span-includes-txs", "C07", "R07.5", DT,
  "        header = BlockHeader.stream_deserialize(f)\n        end_position = f.tell()\n        f.seek(start_position)\n        hash = sha256d(f.read(end_position - start_position))\n        transactions = stream_deserialize_list(f, Transaction)\n",
  "        header = BlockHeader.stream_deserialize(f)\n        transactions = stream_deserialize_list(f, Transaction)\n        end_position = f.tell()\n        f.seek(start_position)\n        hash = sha256d(f.read(end_position - start_position))\n")
M("c07-tx-hash-single", "C07", "R07.5", DT, "        return self.cached_hash or sha256d(self.serialize())\n\n    def __hash__", "        return self.cached_hash or sha256d(self.serialize()[1:])\n\n    def __hash__")
M("c07-new-supplier", "C07", "R07.5", DT, "        return Transaction(\n            inputs=[input.signable_equivalent() for input in self.inputs],\n            outputs=self.outputs,\n        )",
  "        return Transaction(\n            inputs=[input.signable_equivalent() for input in self.inputs],\n            outputs=self.outputs,\n            cached_hash=self.cached_hash,\n        )")
M("c07-datamessage-wrong-tag", "C07", "R07.4", MGR, "        self.broadcast_message(DataMessage(DATA_TRANSACTION, transaction))", "        self.broadcast_message(DataMessage(DATA_BLOCK, transaction))")
M("c07-coinbase-len-u16-writer", "C07", "R07.1", SIG, "        f.write(struct.pack(b\"B\", len(self.signature)))\n        f.write(self.signature)",
  "        f.write(struct.pack(b\">H\", len(self.signature)))\n        f.write(self.signature)")
M("c07-list-skips-last", "C07", "R07.2", SER, "    for _ in range(length):\n        result.append(clz.stream_deserialize(f))", "    for _ in range(length - 1):\n        result.append(clz.stream_deserialize(f))")
M("c07-vlq-partial-record", "C07", "R07.6", SER, "        raw = safe_read(f, 1)\n        consumed.append(raw)\n", "        raw = safe_read(f, 1)\n        if not consumed:\n            consumed.append(raw)\n")
M("c07-pubkey-63", "C07", "R07.3", SIG, "        public_key: bytes = safe_read(f, 64)", "        public_key: bytes = safe_read(f, 63)")
M("c07-msg-tag-collision", "C07", "R07.4", MSG, "MSG_PEERS = b'\\x00\\x06'", "MSG_PEERS = b'\\x00\\x05'")

# ----------------------------------------------------------------------------------------------- C06
M("c06-eq-drop-chain-sample", "C06", "R06.2", DT, "            self.chain_sample == other.chain_sample and\n", "")
M("c06-evidence-tx-slice", "C06", ["R06.3", "R05.7"], CONS, "    serialized_transactions = serialize_list(transactions)", "    serialized_transactions = serialize_list(transactions[1:])")
M("c06-lenient-tx-version", "C06", ["R06.4", "R06.6"], DT,
  "        if safe_read(f, 1) != b'\\x00':\n            raise ValueError(\"Current version supports only version 0 transactions\")\n",
  "        safe_read(f, 1)\n")
M("c06-raw-read", "C06", "R06.5", DT, "        summary_hash = safe_read(f, 32)\n        chain_sample", "        summary_hash = f.read(32)\n        chain_sample")
M("c06-writer-drops-nonce", "C06", ["R06.1", "R06.6"], DT, "        f.write(self.target)\n        f.write(struct.pack(b\">I\", self.nonce))\n", "        f.write(self.target)\n")
M("c06-safe-read-le", "C06", "R06.5", SER, "    if len(r) < n:\n        raise SerializationTruncationError", "    if len(r) < n - 1:\n        raise SerializationTruncationError")
M("c06-scrypt-partial-summary", "C06", ["R06.1", "R05.7"], CONS, "    return scrypt(summary.serialize(), current_height.to_bytes(8, byteorder='big'))",
  "    return scrypt(summary.serialize()[:-4], current_height.to_bytes(8, byteorder='big'))")
M("c06-evidence-guard-dropped", "C06", ["R06.3", "R05.7"], CONS,
  "    if block.header.pow_evidence != reconstructed_evidence:\n        raise ValidateBlockError(\"POW Evidence incorrect\")\n", "")
M("c06-unknown-sig-tag-tolerated", "C06", ["R06.4", "R07.4", "R06.6"], SIG,
  "        raise DeserializationError(\"Non-supported signature type.\")", "        return SignableEquivalent.stream_deserialize(f)")
M("c06-vlq-noncanonical", "C06", ["R07.6", "R06.6"], SER,
  "    if canonical.getvalue() != b\"\".join(consumed):\n        raise DeserializationError(\"Non-canonical VLQ encoding\")\n", "")
M("c06-extra-unhashed-field", "C06", "R06.1", DT,
  "        self.summary_hash = summary_hash\n        self.chain_sample = chain_sample\n        self.block_hash = block_hash\n\n    def __repr__",
  "        self.summary_hash = summary_hash\n        self.chain_sample = chain_sample\n        self.block_hash = block_hash\n        self.note = summary_hash\n\n    def __repr__")

# ----------------------------------------------------------------------------------------------- C17
M("c17-dup-self", "C17", "R17.2", MT, "            new_list.append(sha256d(chunk[0] + chunk[1]))\n        else:  # implied: len(chunk) == 1\n            new_list.append(chunk[0])\n\n    return get_merkle_root(new_list)",
  "            new_list.append(sha256d(chunk[0] + chunk[1]))\n        else:  # implied: len(chunk) == 1\n            new_list.append(sha256d(chunk[0] + chunk[0]))\n\n    return get_merkle_root(new_list)")
M("c17-pad-last", "C17", "R17.2", MT, "    new_list = []\n    for chunk in _chunks(list_of_hashes, 2):", "    if len(list_of_hashes) % 2:\n        list_of_hashes.append(list_of_hashes[-1])\n    new_list = []\n    for chunk in _chunks(list_of_hashes, 2):")
M("c17-root-skips-coinbase", "C17", "R17.1", CONS, "    return get_merkle_root([transaction.hash() for transaction in transactions])", "    return get_merkle_root([transaction.hash() for transaction in transactions[1:]])")
M("c17-root-sorted", "C17", "R17.1", CONS, "    return get_merkle_root([transaction.hash() for transaction in transactions])", "    return get_merkle_root(sorted(transaction.hash() for transaction in transactions))")
M("c17-drop-merkle-guard", "C17", "R17.1", CONS, "    if block.header.summary.merkle_root_hash != calc_merkle_root_hash(block.transactions):\n        raise ValidateBlockError(\"Incorrect merkle_root_hash\")\n", "")
M("c17-swap-pair-one-builder", "C17", "R17.3", MT, "            new_list.append(sha256d(chunk[0] + chunk[1]))", "            new_list.append(sha256d(chunk[1] + chunk[0]))")
M("c17-chunks-step", "C17", "R17.3", MT, "    return (lst[i:i + chunk_size] for i in range(0, len(lst), chunk_size))", "    return (lst[i:i + chunk_size] for i in range(0, len(lst) - 1, chunk_size))")
M("c17-tree-drops-odd", "C17", "R17.3", MT, "            new_list.append(MerkleNode(chunk[0].index, (chunk[0], chunk[1])))\n        else:  # implied: len(chunk) == 1\n            new_list.append(chunk[0])",
  "            new_list.append(MerkleNode(chunk[0].index, (chunk[0], chunk[1])))\n        else:  # implied: len(chunk) == 1\n            pass")
M("c17-merkle-compare-prefix", "C17", "R17.1", CONS, "    if block.header.summary.merkle_root_hash != calc_merkle_root_hash(block.transactions):",
  "    if block.header.summary.merkle_root_hash[:4] != calc_merkle_root_hash(block.transactions)[:4]:")

# ----------------------------------------------------------------------------------------------- C08
M("c08-select-swap-cols", "C08", "R08.1", BS,
  "                \"\"\"select height, previous_block_hash, merkle_root_hash, timestamp, target, nonce,\n                   pow_summary_hash, pow_chain_sample, pow_block_hash, block_hash",
  "                \"\"\"select height, previous_block_hash, pow_block_hash, timestamp, target, nonce,\n                   pow_summary_hash, pow_chain_sample, merkle_root_hash, block_hash")
M("c08-drop-seq-sort", "C08", "R08.1", BS, "                            [v for k, v in sorted(builder.inputs.items(), key=lambda i: i[0])],", "                            [v for k, v in builder.inputs.items()],")
M("c08-nullify-write-only", "C08", "R08.2", BS, "                                previous_block_hash=zeroify_nulls(previous_block_hash),", "                                previous_block_hash=previous_block_hash,")
M("c08-locator-single-sha", "C08", "R08.3", BS, "                transaction_hash = sha256d(transaction_bytes)", "                transaction_hash = sha256d(transaction_bytes)[::-1]")
M("c08-drop-order-by", "C08", "R08.4", BS, "                   from chain order by height\"\"\"", "                   from chain\"\"\"")
M("c08-order-desc", "C08", "R08.4", BS, "                   from chain order by height\"\"\"", "                   from chain order by height desc\"\"\"")
M("c08-commit-early", "C08", "R08.5", BS,
  "        cur.executemany(\"insert or ignore into transaction_locator values (?,?)\", transactions_param)\n",
  "        cur.execute('COMMIT')\n        cur.executemany(\"insert or ignore into transaction_locator values (?,?)\", transactions_param)\n")
M("c08-write-failure-swallowed", "C08", "R08.5", BS,
  "        cur.execute('BEGIN TRANSACTION')\n        cur.executemany(\"insert or ignore into chain values (?,?,?,?,?,?,?,?,?,?,?)\", blocks_param)\n",
  "        try:\n            cur.execute('BEGIN TRANSACTION')\n            cur.executemany(\"insert or ignore into chain values (?,?,?,?,?,?,?,?,?,?,?)\", blocks_param)\n        except sqlite3.Error:\n            pass\n")
M("c08-small-batches-skipped", "C08", "R08.5", BS,
  "        cur = self.connection.cursor()\n        cur.execute('BEGIN TRANSACTION')\n",
  "        if len(blocks) > 500:\n            return\n        cur = self.connection.cursor()\n        cur.execute('BEGIN TRANSACTION')\n")
M("c08-locator-replace", "C08", "R08.6", BS, "        cur.executemany(\"insert or ignore into transaction_locator values (?,?)\", transactions_param)",
  "        cur.executemany(\"insert or replace into transaction_locator values (?,?)\", transactions_param)")
M("c08-clear-before-write", "C08", "R08.5", BS, "                self.write_blocks_to_disk(self.write_buffer)\n                self.write_buffer.clear()",
  "                pending = list(self.write_buffer)\n                self.write_buffer.clear()\n                self.write_blocks_to_disk(pending)")
M("c08-tuple-swap-writer", "C08", "R08.1", BS, "                block.header.pow_evidence.summary_hash,\n                block.header.pow_evidence.chain_sample,", "                block.header.pow_evidence.chain_sample,\n                block.header.pow_evidence.summary_hash,")
M("c08-value-index-swap", "C08", "R08.1", BS, "                        nullify_zeros(input.output_reference.hash),\n                        input.output_reference.index,", "                        nullify_zeros(input.output_reference.hash),\n                        seq,")
M("c08-outputs-seq-from-one", "C08", "R08.1", BS, "                for seq, output in enumerate(transaction.outputs):", "                for seq, output in enumerate(transaction.outputs[1:]):")
M("c08-reload-validating-head", "C08", "R08.4", "skepticoin/scripts/utils.py", "    for block in DefaultBlockStore.instance.read_blocks_from_disk():\n        try:\n            coinstate = coinstate.add_block_no_validation(block)",
  "    for block in DefaultBlockStore.instance.read_blocks_from_disk():\n        try:\n            if block.height % 2 == 0:\n                continue\n            coinstate = coinstate.add_block_no_validation(block)")
M("c08-block-hash-from-summary", "C08", "R08.3", BS, "        for block in blocks:\n            block_hash = block.hash()", "        for block in blocks:\n            block_hash = block.header.summary.hash()")
M("c08-pubkey-raw", "C08", "R08.1", BS, "                        output.public_key.serialize()\n", "                        output.public_key.public_key\n")

# ----------------------------------------------------------------------------------------------- C18
M("c18-eq-for-ne", "C18", "R18.1", CONS, "            if block.hash() != computer(KNOWN_HASHES[block.height]):", "            if block.hash() == computer(KNOWN_HASHES[block.height]):")
M("c18-lt-horizon", "C18", "R18.1", CONS, "    if block.height <= MAX_KNOWN_HASH_HEIGHT:", "    if block.height < MAX_KNOWN_HASH_HEIGHT:")
M("c18-horizon-200000", "C18", "R18.1", CHEAT, "MAX_KNOWN_HASH_HEIGHT = max(KNOWN_HASHES.keys())", "MAX_KNOWN_HASH_HEIGHT = 200000")
M("c18-checkpoint-digit", "C18", "R18.3", CHEAT, "    500     : '00786517cfdd81bbab75cc7d9ca738038cab005b0e0a6205b2aa07bfa917db25',", "    500     : '00786517cfdd81bbab75cc7d9ca738038cab005b0e0a6205b2aa07bfa917db26',")
M("c18-checkpoint-dropped", "C18", "R18.3", CHEAT, "    1000    : '00fefe403e7108adca4f47a05ca59c61c08de1ee644d5d8a23b16b0f187de916',\n", "")
M("c18-scrypt-n", "C18", "R18.4", HASH, "N=1 << 15", "N=1 << 14")
M("c18-blake-64", "C18", "R18.4", HASH, "digest_size=32", "digest_size=64")
M("c18-single-sha", "C18", "R18.4", HASH, "    return hashlib.sha256(hashlib.sha256(b).digest()).digest()", "    return hashlib.sha256(b).digest()")
M("c18-timestamp-u64-both", "C18", "R18.5", DT, "        (timestamp,) = struct.unpack(b\">I\", safe_read(f, 4))\n        target = safe_read(f, 32)",
  "        (timestamp,) = struct.unpack(b\">Q\", safe_read(f, 8))\n        target = safe_read(f, 32)",
  DT, "        f.write(struct.pack(b\">I\", self.timestamp))\n        f.write(self.target)", "        f.write(struct.pack(b\">Q\", self.timestamp))\n        f.write(self.target)")
M("c18-genesis-trailing", "C18", "R18.6", GEN, "3d69b0079819d5ac3f0cd36f25578eb042ad2a7b59f84a0b5f622e41ac982f478e8cb259'", "3d69b0079819d5ac3f0cd36f25578eb042ad2a7b59f84a0b5f622e41ac982f478e8cb25900'")
M("c18-guard-after-return", "C18", "R18.1", CONS,
  "    if block.height <= MAX_KNOWN_HASH_HEIGHT:\n        if block.height in KNOWN_HASHES:\n            if block.hash() != computer(KNOWN_HASHES[block.height]):\n                raise ValidationError(\"No forks allowed before block %s\" % MAX_KNOWN_HASH_HEIGHT)\n",
  "    if block.height <= MAX_KNOWN_HASH_HEIGHT:\n        if block.height in KNOWN_HASHES and False:\n            if block.hash() != computer(KNOWN_HASHES[block.height]):\n                raise ValidationError(\"No forks allowed before block %s\" % MAX_KNOWN_HASH_HEIGHT)\n")
M("c18-swap-field-order-both", "C18", "R18.5", DT,
  "        f.write(self.summary_hash)\n        f.write(self.chain_sample)\n", "        f.write(self.chain_sample)\n        f.write(self.summary_hash)\n",
  DT, "        summary_hash = safe_read(f, 32)\n        chain_sample = safe_read(f, CHAIN_SAMPLE_TOTAL_SIZE)\n", "        chain_sample = safe_read(f, CHAIN_SAMPLE_TOTAL_SIZE)\n        summary_hash = safe_read(f, 32)\n")
M("c18-vlq-needed-bytes", "C18", "R18.5", SER, "    needed_bytes: int = (i.bit_length() // 7) + 1", "    needed_bytes: int = (i.bit_length() // 8) + 1")
M("c18-tag-renumber", "C18", "R18.5", SIG, "TYPE_COINBASE_DATA = b'\\x01'\nTYPE_SECP256k1 = b'\\x02'", "TYPE_COINBASE_DATA = b'\\x02'\nTYPE_SECP256k1 = b'\\x01'")
M("c18-skip-instate-on-genesis-parent", "C18", "R18.1", CONS, "    validate_block_summary_in_coinstate(block.header.summary, coinstate)\n\n    reconstructed_evidence",
  "    if block.height > 170000 and block.nonce == 0:\n        return\n\n    validate_block_summary_in_coinstate(block.header.summary, coinstate)\n\n    reconstructed_evidence")
M("c18-scrypt-salt-len", "C18", ["R18.4", "R05.7", "R18"], CONS, "current_height.to_bytes(8, byteorder='big')", "current_height.to_bytes(4, byteorder='big')")

# ----------------------------------------------------------------------------------------------- C09
M("c09-reintroduce-d3", "C09", "R09.4", RP,
  "            coinstate_changed = coinstate_prior.add_block_no_validation(block)\n            self.local_peer.disk_interface.save_block(block)\n",
  "            self.local_peer.disk_interface.save_block(block)\n            coinstate_changed = coinstate_prior.add_block_no_validation(block)\n")
M("c09-drop-clear", "C09", ["R09.4", "R09.3"], RP, "                    DefaultBlockStore.instance.write_buffer.clear()  # don't save bad blocks\n", "")
M("c09-drop-orphan-return", "C09", ["R09.2", "R09.3", "R09.4"], RP,
  "                                               human(block_hash)))\n                return\n", "                                               human(block_hash)))\n")
M("c09-flush-before-validation", "C09", ["R09.3", "R09.4"], RP,
  "                try:\n                    validate_block_in_coinstate(block, coinstate_prior)  # very slow\n",
  "                self.local_peer.disk_interface.flush_blocks()\n                try:\n                    validate_block_in_coinstate(block, coinstate_prior)  # very slow\n")
M("c09-broadcast-unconditional", "C09", ["R09.6", "R09.3"], RP, "            if block == coinstate_changed.head() and header.in_response_to == 0:", "            if True:")
M("c09-drop-dedupe", "C09", ["R09.1", "R09.3", "R09.4"], RP, "        if block_hash not in coinstate_prior.block_by_hash:\n\n            if block.header", "        if True:\n\n            if block.header")
M("c09-clear-other-store", "C09", ["R09.5", "R09.4", "R09.3"], RP, "                    DefaultBlockStore.instance.write_buffer.clear()  # don't save bad blocks",
  "                    BlockStore(':memory:').write_buffer.clear()  # don't save bad blocks")
M("c09-validate-against-changed", "C09", "R09.3", RP, "                    validate_block_in_coinstate(block, coinstate_prior)  # very slow", "                    validate_block_in_coinstate(block, coinstate_changed)  # very slow")
M("c09-set-before-validate", "C09", "R09.3", RP,
  "                try:\n                    validate_block_in_coinstate(block, coinstate_prior)  # very slow\n",
  "                self.local_peer.chain_manager.set_coinstate(coinstate_changed, validated=True)\n                try:\n                    validate_block_in_coinstate(block, coinstate_prior)  # very slow\n")
M("c09-swallow-byitself", "C09", ["R09.2", "R09.3", "R09.4"], RP,
  "                        self.host, coinstate_prior.head().height, human(block_hash), str(e)))\n                return\n",
  "                        self.host, coinstate_prior.head().height, human(block_hash), str(e)))\n")
M("c09-unvalidated-nonbulk", "C09", "R09.3", RP, "            if header.in_response_to == 0 or block.height % IBD_VALIDATION_SKIP == 0:", "            if block.height % IBD_VALIDATION_SKIP == 0:")
M("c09-handler-narrow", "C09", ["R09.4", "R09.3"], RP, "                except Exception:\n                    self.local_peer.logger.info(\"%15s INVALID block", "                except ValueError:\n                    self.local_peer.logger.info(\"%15s INVALID block")
M("c09-no-flush", "C09", "R09.4", RP, "                self.local_peer.disk_interface.flush_blocks()\n            else:", "            else:")
M("c09-relay-any-valid", "C09", "R09.6", RP, "            if block == coinstate_changed.head() and header.in_response_to == 0:", "            if header.in_response_to == 0:")
M("c09-rollback-then-no-return", "C09", ["R09.3", "R09.4"], RP, "                    DefaultBlockStore.instance.write_buffer.clear()  # don't save bad blocks\n                    return\n",
  "                    DefaultBlockStore.instance.write_buffer.clear()  # don't save bad blocks\n")

# ----------------------------------------------------------------------------------------------- C13
M("c13-drop-byitself", "C13", "R13.1", MGR, "                validate_non_coinbase_transaction_by_itself(transaction)\n\n                assert self.coinstate.current_chain_hash\n\n                validate_non_coinbase_transaction_in_coinstate(\n                    transaction, self.coinstate.current_chain_hash, self.coinstate)\n\n                # Horribly",
  "                assert self.coinstate.current_chain_hash\n\n                validate_non_coinbase_transaction_in_coinstate(\n                    transaction, self.coinstate.current_chain_hash, self.coinstate)\n\n                # Horribly")
M("c13-drop-dupcheck", "C13", "R13.1", MGR, "                validate_no_duplicate_output_references_in_transactions(self.transaction_pool + [transaction])\n", "                pass\n")
M("c13-validate-lkv", "C13", "R13.1", MGR,
  "                validate_non_coinbase_transaction_in_coinstate(\n                    transaction, self.coinstate.current_chain_hash, self.coinstate)\n\n                # Horribly",
  "                validate_non_coinbase_transaction_in_coinstate(\n                    transaction, self.coinstate.current_chain_hash, self.last_known_valid_coinstate)\n\n                # Horribly")
M("c13-foreign-writer", "C13", "R13.2", MIN, "        self.network_thread.local_peer.chain_manager.set_coinstate(self.coinstate)\n", "        self.network_thread.local_peer.chain_manager.coinstate = self.coinstate\n")
M("c13-drop-cleanup", "C13", "R13.3", MGR, "            self._cleanup_transaction_pool_for_coinstate(coinstate)\n", "")
M("c13-isvalid-true-in-except", "C13", "R13.3", MGR, "            except ValidateTransactionError:\n                return False", "            except ValidateTransactionError:\n                return True")
M("c13-handler-falls-through", "C13", "R13.1", MGR, "                self.local_peer.disk_interface.save_transaction_for_debugging(transaction)\n\n                return False  # not successful\n", "                self.local_peer.disk_interface.save_transaction_for_debugging(transaction)\n")
M("c13-dup-only-last", "C13", "R13.1", MGR, "                validate_no_duplicate_output_references_in_transactions(self.transaction_pool + [transaction])\n\n                #  we", "                validate_no_duplicate_output_references_in_transactions(self.transaction_pool[-10:] + [transaction])\n\n                #  we")
M("c13-pool-mutated-by-miner", "C13", "R13.2", MIN, "        increasing_time = max(int(time()), self.coinstate.head().timestamp + 1)\n", "        increasing_time = max(int(time()), self.coinstate.head().timestamp + 1)\n        transactions.sort(key=lambda t: t.hash())\n")
M("c13-cleanup-before-store", "C13", "R13.3", MGR, "            self.coinstate = coinstate\n            self._cleanup_transaction_pool_for_coinstate(coinstate)\n", "            self._cleanup_transaction_pool_for_coinstate(coinstate)\n            self.coinstate = coinstate\n")
M("c13-relay-always", "C13", "R13.4", RP, "        if self.local_peer.chain_manager.add_transaction_to_pool(transaction):\n", "        self.local_peer.chain_manager.add_transaction_to_pool(transaction)\n        if True:\n")
M("c13-append-outside-lock", "C13", "R13.1", MGR, "            self.transaction_pool.append(transaction)\n\n        return True  # successfully added", "        self.transaction_pool.append(transaction)\n\n        return True  # successfully added")
M("c13-cleanup-keeps-first", "C13", "R13.3", MGR, "        self.transaction_pool = [t for t in self.transaction_pool if is_valid(t)]", "        self.transaction_pool = self.transaction_pool[:1] + [t for t in self.transaction_pool[1:] if is_valid(t)]")

# ----------------------------------------------------------------------------------------------- C12
M("c12-time-no-max", "C12", "R12.1", MIN, "        increasing_time = max(int(time()), self.coinstate.head().timestamp + 1)", "        increasing_time = int(time())")
M("c12-time-no-plus-one", "C12", "R12.1", MIN, "        increasing_time = max(int(time()), self.coinstate.head().timestamp + 1)", "        increasing_time = max(int(time()), self.coinstate.head().timestamp)")
M("c12-subsidy-only", "C12", ["R12.2", "R05.8"], CONS, "        value=subsidy + fees,", "        value=subsidy,")
M("c12-validator-ge", "C12", "R12.2", CONS, "    if sum(output.value for output in transaction.outputs) > fees + subsidy:", "    if sum(output.value for output in transaction.outputs) >= fees + subsidy:")
M("c12-reintroduce-d4", "C12", "R12.4", MIN,
  "        self.coinstate = self.coinstate.add_block(block, int(time()))\n\n        self.network_thread.local_peer.chain_manager.set_coinstate(self.coinstate)\n        self.network_thread.local_peer.network_manager.broadcast_block(block)\n\n",
  "        self.network_thread.local_peer.chain_manager.set_coinstate(self.coinstate)\n        self.network_thread.local_peer.network_manager.broadcast_block(block)\n\n        self.coinstate = self.coinstate.add_block(block, int(time()))\n\n")
M("c12-flush-before-save", "C12", "R12.4", MIN,
  "        self.network_thread.local_peer.disk_interface.save_block(block)\n        self.network_thread.local_peer.disk_interface.flush_blocks()\n",
  "        self.network_thread.local_peer.disk_interface.flush_blocks()\n        self.network_thread.local_peer.disk_interface.save_block(block)\n")
M("c12-no-validation", "C12", "R12.4", MIN, "        self.coinstate = self.coinstate.add_block(block, int(time()))", "        self.coinstate = self.coinstate.add_block_no_validation(block)")
M("c12-tx-spend-ge", "C12", "R12.2", CONS, "    if sum(output.value for output in transaction.outputs) > total_input_value:", "    if sum(output.value for output in transaction.outputs) >= total_input_value:")
M("c12-other-miner-args", "C12", "R12.4", MIN, "        summary, current_height, transactions = self.mining_args[miner_id]\n", "        summary, current_height, transactions = self.mining_args[0]\n")
M("c12-set-only-if-head", "C12", "R12.4", MIN, "        self.network_thread.local_peer.chain_manager.set_coinstate(self.coinstate)\n        self.network_thread.local_peer.network_manager.broadcast_block(block)\n",
  "        if self.coinstate.head() == block:\n            self.network_thread.local_peer.chain_manager.set_coinstate(self.coinstate)\n        self.network_thread.local_peer.network_manager.broadcast_block(block)\n")
M("c12-coinbase-fees-wrong-state", "C12", "R05.8", CONS, "    unspent_transaction_outs = coinstate.unspent_transaction_outs_by_hash[coinstate.current_chain_hash]\n\n    coinbase_transaction = construct_coinbase_transaction(\n        current_height, non_coinbase",
  "    unspent_transaction_outs = coinstate.unspent_transaction_outs_by_hash[previous_block.previous_block_hash]\n\n    coinbase_transaction = construct_coinbase_transaction(\n        current_height, non_coinbase")
M("c12-no-save-key", "C12", "R15.3", MIN, "        self.public_key = self.wallet.get_annotated_public_key(\"reserved for potentially mined block\")\n        save_wallet(self.wallet)\n\n        self.balance", "        self.public_key = self.wallet.get_annotated_public_key(\"reserved for potentially mined block\")\n\n        self.balance")

# ----------------------------------------------------------------------------------------------- C15
M("c15-dump-drops-unused", "C15", "R15.1", WAL, "            \"unused_public_keys\": [human(e) for e in self.unused_public_keys],\n", "")
M("c15-peek-not-pop", "C15", "R15.2", WAL, "        public_key = self.unused_public_keys.pop()", "        public_key = self.unused_public_keys[-1]")
M("c15-receive-no-save", "C15", "R15.3", "skepticoin/scripts/receive.py", "    public_key = wallet.get_annotated_public_key(args.annotation)\n    save_wallet(wallet)\n", "    public_key = wallet.get_annotated_public_key(args.annotation)\n")
M("c15-write-final-directly", "C15", "R15.4", WAL, "    with open(\"wallet.json.new\", 'w') as f:\n        wallet.dump(f)\n\n    os.replace(\"wallet.json.new\", \"wallet.json\")", "    with open(\"wallet.json\", 'w') as f:\n        wallet.dump(f)")
M("c15-replace-inside-with", "C15", "R15.4", WAL, "        wallet.dump(f)\n\n    os.replace(\"wallet.json.new\", \"wallet.json\")", "        wallet.dump(f)\n        os.replace(\"wallet.json.new\", \"wallet.json\")")
M("c15-handout-no-annotation", "C15", ["R15.5", "R15.2"], WAL, "        self.public_key_annotations[public_key] = annotation\n        return public_key", "        return public_key")
M("c15-print-before-save", "C15", "R15.3", "skepticoin/scripts/receive.py", "    save_wallet(wallet)\n\n    print(\"SKE\" + human(public_key) + \"PTI\")", "    print(\"SKE\" + human(public_key) + \"PTI\")\n    save_wallet(wallet)")
M("c15-load-swaps-kv", "C15", "R15.1", WAL, "            keypairs={computer(k): computer(v) for (k, v) in d[\"keypairs\"].items()},", "            keypairs={computer(v): computer(k) for (k, v) in d[\"keypairs\"].items()},")
M("c15-other-writer-of-final", "C15", "R15.4", "skepticoin/scripts/utils.py", "        wallet.generate_keys(10_000)\n        save_wallet(wallet)", "        wallet.generate_keys(10_000)\n        wallet.dump(open(\"wallet.json\", \"w\"))")
M("c15-reuse-while-unused", "C15", "R15.2", WAL, "        if len(self.unused_public_keys) == 0:\n            # this if-statement", "        if len(self.unused_public_keys) <= 1:\n            # this if-statement")
M("c15-balance-skips-unused", "C15", "R15.5", WAL, "            for pk in list(self.public_key_annotations.keys()) + self.unused_public_keys\n", "            for pk in list(self.public_key_annotations.keys())\n")
M("c15-restore-no-append", "C15", ["R15.2", "R15.5"], WAL, "        del self.public_key_annotations[public_key]\n        self.unused_public_keys.append(public_key)", "        del self.public_key_annotations[public_key]")
M("c15-send-save-after-spend", "C15", "R15.3", "skepticoin/scripts/send.py", "        change_address = SECP256k1PublicKey(wallet.get_annotated_public_key(\"change\"))\n        save_wallet(wallet)\n", "        change_address = SECP256k1PublicKey(wallet.get_annotated_public_key(\"change\"))\n")

# ----------------------------------------------------------------------------------------------- C14
M("c14-reintroduce-d5", "C14", "R14.1", WAL, "            newly_spent_outputs.append(output_reference)\n", "            wallet.spent_transaction_outputs.add(output_reference)\n")
M("c14-commit-before-sign", "C14", "R14.1", WAL,
  "                transaction = sign_transaction(wallet, unspent_transaction_outs, Transaction(inputs, outputs))\n                wallet.spent_transaction_outputs.update(newly_spent_outputs)\n",
  "                wallet.spent_transaction_outputs.update(newly_spent_outputs)\n                transaction = sign_transaction(wallet, unspent_transaction_outs, Transaction(inputs, outputs))\n")
M("c14-drop-used-test", "C14", "R14.2", WAL,
  "            if output_reference in wallet.spent_transaction_outputs:\n                # in spent_transaction_outputs we keep track of those outputs that we've spent using this wallet (and\n                # presumably broadcast) but which haven't made it into the chain yet.\n                continue\n", "")
M("c14-change-forgets-fee", "C14", "R14.3", WAL, "                        collected_value - (value + miners_fee),", "                        collected_value - value,")
M("c14-no-change-when-nonzero", "C14", "R14.3", WAL, "                if collected_value != value + miners_fee:", "                if collected_value > value + miners_fee + 1:")
M("c14-sign-whole-tx", "C14", "R14.4", WAL, "    message = transaction.signable_equivalent().serialize()\n\n    signed_inputs = []", "    message = transaction.serialize()\n\n    signed_inputs = []")
M("c14-enough-without-fee", "C14", "R14.3", WAL, "            if collected_value >= value + miners_fee:", "            if collected_value >= value:")
M("c14-never-record", "C14", "R14.1", WAL, "                wallet.spent_transaction_outputs.update(newly_spent_outputs)\n", "")
M("c14-sign-first-input-only", "C14", "R14.4", WAL, "    for input in transaction.signable_equivalent().inputs:", "    for input in transaction.signable_equivalent().inputs[:1]:")
M("c14-foreign-key-inputs", "C14", "R14.2", WAL, "    for public_key in wallet.keypairs.keys():", "    for public_key in wallet.public_key_annotations.keys():")
M("c14-recipient-gets-collected", "C14", "R14.3", WAL, "                outputs = [Output(value, output_public_key)]", "                outputs = [Output(collected_value - miners_fee, output_public_key)]")
M("c14-sign-drops-outputs", "C14", "R14.4", WAL, "        inputs=signed_inputs,\n        outputs=transaction.outputs,", "        inputs=signed_inputs,\n        outputs=transaction.outputs[:1],")
M("c14-record-all-candidates", "C14", "R14.1", WAL, "            newly_spent_outputs.append(output_reference)\n\n            inputs.append(Input(output_reference, None))",
  "            inputs.append(Input(output_reference, None))")

# ----------------------------------------------------------------------------------------------- C03
M("c03-store-heads-on-self", "C03", "R03.1", CS, "            heads = mutable_heads.finish()\n", "            heads = mutable_heads.finish()\n        self.heads = heads\n")
M("c03-discard-set", "C03", ["R03.1", "R03.2"], CS, "        block_by_hash: immutables.Map[bytes, Block] = self.block_by_hash.set(block_hash, block)\n", "        block_by_hash: immutables.Map[bytes, Block] = self.block_by_hash\n        self.block_by_hash.set(block_hash, block)\n")
M("c03-uto-from-head", "C03", "R03.2", CS, "            unspent_transaction_outs = self.unspent_transaction_outs_by_hash[block.previous_block_hash]", "            unspent_transaction_outs = self.unspent_transaction_outs_by_hash[self.current_chain_hash]")
M("c03-cache-by-height", "C03", "R03.3", BAL, "        if key not in self.cache:\n            self.cache[key] = self.public_key_balances_by_hash(key)\n        return self.cache[key]",
  "        k = len(key)\n        if k not in self.cache:\n            self.cache[k] = self.public_key_balances_by_hash(key)\n        return self.cache[k]")
M("c03-enumerate-from-one", "C03", "R03.4", BAL, "        for i, output in enumerate(transaction.outputs):\n            output_reference = OutputReference(transaction.hash(), i)\n\n            if output.public_key",
  "        for i, output in enumerate(transaction.outputs, 1):\n            output_reference = OutputReference(transaction.hash(), i)\n\n            if output.public_key")
M("c03-drop-ref-filter", "C03", "R03.4", BAL, "                    [to for to in mutable_public_key_balances[public_key].output_references\n                     if to != input.output_reference]", "                    mutable_public_key_balances[public_key].output_references")
M("c03-pkb-post-block-uto", "C03", "R03.3", BAL, "            public_key_balances = pkb_apply_block(unspent_transaction_outs,\n                                                  public_key_balances,\n                                                  block)\n\n            unspent_transaction_outs = uto_apply_block(unspent_transaction_outs, block)\n",
  "            unspent_transaction_outs = uto_apply_block(unspent_transaction_outs, block)\n\n            public_key_balances = pkb_apply_block(unspent_transaction_outs,\n                                                  public_key_balances,\n                                                  block)\n")
M("c03-athead-lkv", "C03", "R03.5", CS, "                return self.unspent_transaction_outs_by_hash[self.current_chain_hash]", "                return self.unspent_transaction_outs_by_hash[next(iter(self.heads))]")
M("c03-height-index-from-head", "C03", ["R03.2", "R04.4"], CS, "            block_by_height = self.block_by_height_by_hash[block.previous_block_hash]", "            block_by_height = self.by_height_at_head()")
M("c03-pkb-credit-wrong-key", "C03", "R03.4", BAL, "            mutable_public_key_balances[output.public_key] = PKBalance(\n                mutable_public_key_balances[output.public_key].value + output.value,",
  "            mutable_public_key_balances[output.public_key] = PKBalance(\n                mutable_public_key_balances[output.public_key].value + 1,")
M("c03-chain-stops-early", "C03", "R03.3", BAL, "        while block.previous_block_hash != b'\\x00' * 32:", "        while block.previous_block_hash != b'\\x00' * 32 and len(reverse_chain) < 1000:")
M("c03-external-mutation", "C03", "R03.1", MGR, "            self.coinstate = coinstate\n", "            self.coinstate = coinstate\n            coinstate.current_chain_hash = coinstate.current_chain_hash\n")

# ----------------------------------------------------------------------------------------------- C04
M("c04-ge", "C04", "R04.1", CS, "        elif block.get_total_work() > self.block_by_hash[self.current_chain_hash].get_total_work():", "        elif block.get_total_work() >= self.block_by_hash[self.current_chain_hash].get_total_work():")
M("c04-compare-heads-len", "C04", "R04.1", CS, "        elif block.get_total_work() > self.block_by_hash[self.current_chain_hash].get_total_work():", "        elif block.get_total_work() > len(self.heads):")
M("c04-drop-tip-del", "C04", "R04.3", CS, "            if block.previous_block_hash in mutable_heads:\n                del mutable_heads[block.header.summary.previous_block_hash]\n", "")
M("c04-index-from-head", "C04", "R04.4", CS, "            block_by_height = self.block_by_height_by_hash[block.previous_block_hash]", "            block_by_height = self.by_height_at_head()")
M("c04-work-timestamp", "C04", "R04.2", DT, "        return self.height  # type: ignore", "        return self.timestamp  # type: ignore")
M("c04-always-switch", "C04", "R04.1", CS, "            current_chain_hash = self.current_chain_hash  # a fork, but the most recently added block is non-current", "            current_chain_hash = block_hash")
M("c04-head-reader", "C04", "R04.5", CS, "        return self.block_by_height_by_hash[self.current_chain_hash]\n\n    @property", "        return self.block_by_height_by_hash[max(self.heads)]\n\n    @property")
M("c04-tip-del-unconditional-wrong-key", "C04", "R04.3", CS, "            mutable_heads[block_hash] = block\n", "            mutable_heads[block.previous_block_hash] = block\n")

# ----------------------------------------------------------------------------------------------- C11
M("c11-peek-data", "C11", ["P1", "P2"], RP, "        if not self.magic_read and len(self.buffer) >= 4:\n            magic = self.buffer[:4]", "        if not self.magic_read and len(self.buffer) >= 4 and data[:4] != b'':\n            magic = self.buffer[:4]")
M("c11-gt-4", "C11", ["P3", "P4"], RP, "        if self.len is None and len(self.buffer) >= 4:", "        if self.len is None and len(self.buffer) > 4:")
M("c11-guard4-slice3", "C11", "P3", RP, "            self.buffer = self.buffer[4:]\n\n        if self.len is None", "            self.buffer = self.buffer[3:]\n\n        if self.len is None")
M("c11-no-reentry", "C11", "P5", RP, "            self.receive(b\"\")  # recurse to repeat (multiple messages could be received in a single socket read)\n", "")
M("c11-size-check-late", "C11", "P7", RP,
  "            if self.len > MAX_MESSAGE_SIZE:  # type: ignore\n                raise Exception(\"len > MAX_MESSAGE_SIZE\")\n\n            self.buffer = self.buffer[4:]\n\n        if self.len is not None and self.len <= len(self.buffer):\n",
  "            self.buffer = self.buffer[4:]\n\n        if self.len is not None and self.len <= len(self.buffer):\n            if self.len > MAX_MESSAGE_SIZE:  # type: ignore\n                raise Exception(\"len > MAX_MESSAGE_SIZE\")\n")
M("c11-eq-len", "C11", ["P4", "P3"], RP, "        if self.len is not None and self.len <= len(self.buffer):", "        if self.len is not None and self.len == len(self.buffer):")
M("c11-body-lt", "C11", ["P3", "P4"], RP, "        if self.len is not None and self.len <= len(self.buffer):", "        if self.len is not None and self.len < len(self.buffer):")
M("c11-no-magic-check", "C11", "P7", RP, "            if magic != MAGIC:\n                raise Exception(\"Insufficient magic\")\n            else:\n                self.magic_read = True\n", "            self.magic_read = True\n")
M("c11-no-magic-reset", "C11", ["P5", "P6"], RP, "            self.magic_read = False\n            self.len = None\n", "            self.len = None\n")
M("c11-dispatch-whole-buffer", "C11", ["P5", "P3"], RP, "            self.handle_message_data(self.buffer[:self.len])", "            self.handle_message_data(self.buffer)")
M("c11-max-size-64", "C11", "P7", NP, "MAX_MESSAGE_SIZE = 32 * 1024 * 1024", "MAX_MESSAGE_SIZE = 64 * 1024 * 1024")
M("c11-replace-buffer", "C11", "P1", RP, "        self.buffer += data\n", "        self.buffer = data if not self.buffer else self.buffer + data\n")
M("c11-len-little-endian", "C11", "P3", RP, "            (self.len,) = struct.unpack(b\">I\", self.buffer[:4])", "            (self.len,) = struct.unpack(b\"<I\", self.buffer[:4])")
M("c11-stage-order", "C11", ["P6", "P3", "P7", "P4"], RP, "        if self.len is None and len(self.buffer) >= 4:\n            (self.len,) = struct.unpack(b\">I\", self.buffer[:4])", "        if self.len is None and self.magic_read and len(self.buffer) >= 4 and len(self.buffer) < 4096:\n            (self.len,) = struct.unpack(b\">I\", self.buffer[:4])")

# ----------------------------------------------------------------------------------------------- C19
M("c19-drop-del-disconnected", "C19", "R19.2", MGR, "        if key in self.disconnected_peers:\n            del self.disconnected_peers[key]\n", "")
M("c19-hello-unconditional-store", "C19", "R19.2", RP, "            elif key not in nm.connected_peers:\n                nm.disconnected_peers[key] = DisconnectedRemotePeer(self.host, message.my_port, OUTGOING,",
  "            else:\n                nm.disconnected_peers[key] = DisconnectedRemotePeer(self.host, message.my_port, OUTGOING,")
M("c19-foreign-writer", "C19", "R19.1", LP, "        remote_peer = disconnected_peer.as_connected(self, sock)\n", "        remote_peer = disconnected_peer.as_connected(self, sock)\n        self.network_manager.connected_peers[(remote_peer.host, remote_peer.port, remote_peer.direction)] = remote_peer\n")
M("c19-backoff-plus-one", "C19", "R19.3", RP, "            TIME_TO_SECOND_CONNECTION_ATTEMPT * pow(2, self.ban_score),", "            TIME_TO_SECOND_CONNECTION_ATTEMPT * pow(2, self.ban_score + 1),")
M("c19-giveup-ge", "C19", "R19.3", RP, "        if self.ban_score > MAX_CONNECTION_ATTEMPTS:\n            return False", "        if self.ban_score >= MAX_CONNECTION_ATTEMPTS:\n            return False")
M("c19-max-for-min", "C19", "R19.3", RP, "        time_between = min(\n            TIME_TO_SECOND", "        time_between = max(\n            TIME_TO_SECOND")
M("c19-no-stamp", "C19", "R19.3", MGR, "                disconnected_peer.last_connection_attempt = current_time\n", "")
M("c19-drop-my-addresses", "C19", ["R19.3", "R19.4"], MGR, "                (disconnected_peer.host, disconnected_peer.port) not in self.my_addresses and\n", "")
M("c19-keep-101", "C19", "R19.5", DI, "PEERS_JSON_MAX_LEN = 100", "PEERS_JSON_MAX_LEN = 101")
M("c19-append-not-insert", "C19", "R19.5", DI, "        keep.insert(0, item)\n", "        keep.append(item)\n")
M("c19-write-final-directly", "C19", "R19.5", DI, "        with open(PEERS_JSON_FILE + \".new\", \"w\") as f:\n            json.dump(keep[:PEERS_JSON_MAX_LEN], f, indent=4)\n\n        os.replace(PEERS_JSON_FILE + \".new\", PEERS_JSON_FILE)",
  "        with open(PEERS_JSON_FILE, \"w\") as f:\n            json.dump(keep[:PEERS_JSON_MAX_LEN], f, indent=4)")
M("c19-peers-handler-overwrites", "C19", "R19.2", RP, "            elif key not in nm.connected_peers:\n                nm.disconnected_peers[key] = DisconnectedRemotePeer(host, announced_peer.port, OUTGOING, None,",
  "            else:\n                nm.disconnected_peers[key] = DisconnectedRemotePeer(host, announced_peer.port, OUTGOING, None,")
M("c19-disconnect-keeps-connected", "C19", "R19.2", MGR, "        del self.connected_peers[key]\n\n        if remote_peer.direction == OUTGOING:", "        if remote_peer.direction == OUTGOING:")
M("c19-ban-reset-on-disconnect", "C19", "R19.3", MGR, "            self.disconnected_peers[key] = remote_peer.as_disconnected()", "            remote_peer.ban_score = 0\n            self.disconnected_peers[key] = remote_peer.as_disconnected()")
M("c19-as-disconnected-drops-score", "C19", "R19.3", RP, "        return DisconnectedRemotePeer(self.host, self.port, self.direction,\n                                      self.last_connection_attempt, self.ban_score)",
  "        return DisconnectedRemotePeer(self.host, self.port, self.direction,\n                                      self.last_connection_attempt, 0)")
M("c19-self-connect-not-dropped", "C19", "R19.4", RP, "            self.local_peer.network_manager.my_addresses.add((self.host, self.port))\n            self.local_peer.disconnect(self, \"connection to self\")", "            self.local_peer.network_manager.my_addresses.add((self.host, self.port))")
M("c19-backoff-cap", "C19", "R19.3", NP, "MAX_TIME_BETWEEN_CONNECTION_ATTEMPTS = 60 * 30", "MAX_TIME_BETWEEN_CONNECTION_ATTEMPTS = 60 * 60 * 30")
M("c19-inc-always", "C19", "R19.3", MGR, "            if not remote_peer.hello_received:\n                remote_peer.ban_score += 1", "            if True:\n                remote_peer.ban_score += 1")

# ----------------------------------------------------------------------------------------------- C10
M("c10-drop-irt0", "C10", ["R10.1", "R09.6"], RP, "            if block == coinstate_changed.head() and header.in_response_to == 0:", "            if block == coinstate_changed.head():")
M("c10-drop-pool-dedupe", "C10", ["R10.2", "R13.4"], RP, "        if transaction in self.local_peer.chain_manager.transaction_pool:\n            return\n", "")
M("c10-start-no-plus-one", "C10", "R10.3", RP, "                start_height = coinstate.block_by_hash[potential_start_hash].height + 1  # + 1: sent hash is last known", "                start_height = coinstate.block_by_hash[potential_start_hash].height")
M("c10-max-height-minus", "C10", "R10.3", RP, "        max_height = coinstate.head().height + 1  # + 1: range is exclusive", "        max_height = coinstate.head().height - 1  #")
M("c10-locator-9", "C10", "R10.5", MGR, "    oldness = list(range(10)) + [pow(x, 2) for x in range(4, 64)]", "    oldness = list(range(1, 10)) + [pow(x, 2) for x in range(4, 64)]")
M("c10-no-block-requested", "C10", "R10.4", RP, "                        item.block_requested = True\n", "")
M("c10-batch-499", "C10", "R10.3", NP, "GET_BLOCKS_INVENTORY_SIZE = 500", "GET_BLOCKS_INVENTORY_SIZE = 499")
M("c10-no-next-batch", "C10", "R10.4", RP, "        get_blocks_message = GetBlocksMessage([message.items[-1].hash])\n        self.send_message(get_blocks_message, prev_header=header)\n", "")
M("c10-next-batch-from-first", "C10", "R10.4", RP, "        get_blocks_message = GetBlocksMessage([message.items[-1].hash])", "        get_blocks_message = GetBlocksMessage([message.items[0].hash])")
M("c10-accept-any-known", "C10", "R10.3", RP, "                if coinstate.by_height_at_head()[start_height].previous_block_hash == potential_start_hash:\n", "                if True:\n")
M("c10-fetch-never-after-start", "C10", "R10.6", MGR, "            or (current_time <= self.started_at + 60)  # always sync w/ network right after restart\n", "")
M("c10-locator-from-genesis", "C10", "R10.5", MGR, "        heights = get_recent_block_heights(self.coinstate.head().height)", "        heights = get_recent_block_heights(self.coinstate.head().height - 1)")
M("c10-empty-keeps-waiting", "C10", "R10.4", RP, "            self.waiting_for_inventory = False\n            return", "            return")
M("c10-fallback-zero", "C10", "R10.3", RP, "            start_height = 1  # genesis is last known", "            start_height = 2  # genesis is last known")

# ----------------------------------------------------------------------------------------------- C20
M("c20-except-valueerror", "C20", "R20.1", LP, "        except Exception as e:\n            # We take the position", "        except ValueError as e:\n            # We take the position")
M("c20-handler-reraises", "C20", "R20.1", LP, "            self.disconnect(remote_peer, \"Exception\")\n", "            self.disconnect(remote_peer, \"Exception\")\n            raise\n")
M("c20-send-outside-try", "C20", "R20.1", LP,
  "            if mask & selectors.EVENT_WRITE:\n                remote_peer.handle_can_send(sock)\n\n        except OSError as e:",
  "        except OSError as e:")
M("c20-drop-hello-guard", "C20", "R20.3", RP, "        if not self.hello_received:\n            raise Exception(\"First message must be Hello\")\n", "")
M("c20-dispatch-return-none", "C20", "R20.3", RP, "        raise NotImplementedError(\"%s\" % message)", "        return None")
M("c20-call-from-manager-step", "C20", "R20.2", MGR, "        for peer in list(self.connected_peers.values()):\n            peer.step(current_time)", "        for peer in list(self.connected_peers.values()):\n            peer.step(current_time)\n            peer.handle_receive_data(b'')")
M("c20-disconnect-unguarded", "C20", "R20.1", LP, "        try:\n            self.selector.unregister(remote_peer.sock)\n            remote_peer.sock.close()\n            self.network_manager.handle_peer_disconnected(remote_peer)\n\n        except Exception:",
  "        self.selector.unregister(remote_peer.sock)\n        try:\n            remote_peer.sock.close()\n            self.network_manager.handle_peer_disconnected(remote_peer)\n\n        except Exception:")
M("c20-data-unknown-ignored", "C20", "R20.3", RP, "        raise NotImplementedError(\"Unknown DataMessage objects for now\")", "        return None")
M("c20-handler-writes-pool", "C20", "R20.4", RP, "        if self.local_peer.chain_manager.add_transaction_to_pool(transaction):", "        self.local_peer.chain_manager.transaction_pool.append(transaction)\n        if self.local_peer.chain_manager.add_transaction_to_pool(transaction):")
M("c20-handler-no-disconnect", "C20", "R20.1", LP, "            self.logger.info(\"%15s Disconnecting remote peer %s\" % (remote_peer.host, e))\n            self.disconnect(remote_peer, \"OS error\")", "            self.logger.info(\"%15s Disconnecting remote peer %s\" % (remote_peer.host, e))")
M("c20-unknown-msg-tag-tolerated", "C20", ["R20.3", "R07.4"], MSG, "        raise DeserializationError(\"Non-supported message type\")", "        return GetPeersMessage()")
M("c20-recv-outside-try", "C20", "R20.1", LP, "        try:\n            if mask & selectors.EVENT_READ:\n                recv_data = sock.recv(1024)\n", "        recv_data = sock.recv(1024) if mask & selectors.EVENT_READ else b''\n        try:\n            if mask & selectors.EVENT_READ:\n")
M("c20-getdata-any-type", "C20", "R20.3", RP, "        if get_data_message.data_type != DATA_BLOCK:\n            raise NotImplementedError(\"We can only deal w/ DATA_BLOCK GetDataMessage objects for now\")\n", "")
M("c20-disconnect-other-peer", "C20", "R20.1", LP, "            self.network_manager.handle_peer_disconnected(remote_peer)\n\n        except Exception:\n            # yes yes", "            for p in list(self.network_manager.connected_peers.values()):\n                self.network_manager.handle_peer_disconnected(p)\n\n        except Exception:\n            # yes yes")

# ----------------------------------------------------------------------------------------------- extras
M("c05-slice-wrap-off", "C05", "R05.7", POW, "        result += serialized_block[start:start + length - len(result)]", "        result += serialized_block[start:start + length]")
M("c07-deserialize-skips-byte", "C07", "R07.5", SER, "        f = BytesIO(bytes_)\n        f.seek(0)\n        return cls.stream_deserialize(f)\n\n    def stream_serialize", "        f = BytesIO(bytes_)\n        f.seek(1)\n        return cls.stream_deserialize(f)\n\n    def stream_serialize")
M("c09-broadcast-twice", "C09", "R09.8", MGR, "                peer.send_message(message)\n            except (ValueError, KeyError) as e:", "                peer.send_message(message)\n                peer.send_message(message)\n            except (ValueError, KeyError) as e:")
M("c09-broadcast-first-peer-only", "C09", "R09.8", MGR, "        for peer in self.get_active_peers():\n            try:", "        for peer in self.get_active_peers()[:1]:\n            try:")
M("c11-drop-first-byte", "C11", "P1", RP, "        self.receiver.receive(data)", "        self.receiver.receive(data[1:] if len(data) > 1023 else data)")
M("c01-add-block-mutates-receiver", "C01", "R03.1", CS, "        validate_block_in_coinstate(block, self)\n\n        return", "        self.current_chain_hash = block.hash()\n        validate_block_in_coinstate(block, self)\n\n        return")

# ----------------------------------------------------------------------------------------------- from independent sub-agents (first missed, then rules added)
M("c16-upper-exclusive", "C16", "R16.5", CONS, "    if not (0 < value <= MAX_SASHIMI):", "    if value <= 0 or value >= MAX_SASHIMI:")
M("c02-upper-exclusive", "C02", "R02.4", CONS, "    if not (0 < value <= MAX_SASHIMI):", "    if value <= 0 or value >= MAX_SASHIMI:")
M("c08-shared-builder-dicts", "C08", "R08.7", BS, "        self.block_hash = block_hash\n        self.inputs: Dict[int, Input] = {}\n        self.outputs: Dict[int, Output] = {}\n",
  "        self.block_hash = block_hash\n\n    inputs: Dict[int, Input] = {}\n    outputs: Dict[int, Output] = {}\n")
M("c08-unique-index-on-spent-ref", "C08", "R08.6", BS, "            self.sql('CREATE INDEX tr_locator_block_hash ON transaction_locator(block_hash)')\n",
  "            self.sql('CREATE INDEX tr_locator_block_hash ON transaction_locator(block_hash)')\n            self.sql('CREATE UNIQUE INDEX spent_once ON transaction_inputs(output_reference_hash, output_reference_index)')\n")
M("c08-inputs-before-outputs", "C08", "R08.5", BS,
  "        cur.executemany(\"insert or ignore into transaction_outputs values (?,?,?,?)\", transaction_outputs_param)\n        cur.executemany(\"insert or ignore into transaction_inputs values (?,?,?,?,?)\", transaction_inputs_param)\n",
  "        cur.executemany(\"insert or ignore into transaction_inputs values (?,?,?,?,?)\", transaction_inputs_param)\n        cur.executemany(\"insert or ignore into transaction_outputs values (?,?,?,?)\", transaction_outputs_param)\n")
M("c10-session-kept-or", "C10", "R10.6", MGR, "            if current_time < timeout_at and\n            not inventory_batch_handled(p)]", "            if current_time < timeout_at or\n            not inventory_batch_handled(p)]")
M("c20-ipv6-host-stored", "C20", "R20.6", RP, "            ipv4_mapped = announced_peer.ip_address.ipv4_mapped\n            if ipv4_mapped is None:\n                continue  # IPv6? Ain't nobody got time for that! (Seriously though, the protocol supports it if needed)\n            host = ipv4_mapped.exploded\n",
  "            ip_address = announced_peer.ip_address\n            host = (ip_address.ipv4_mapped or ip_address).exploded\n")

# ----------------------------------------------------------------------------------------------- value semantics / wiring
M("c13-tx-eq-inputs-only", "C13", "R13.5", DT, "        return self.inputs == other.inputs and self.outputs == other.outputs", "        return self.inputs == other.inputs")
M("c03-pubkey-eq-prefix", "C03", "R03.6", SIG, "        return isinstance(other, SECP256k1PublicKey) and self.public_key == other.public_key", "        return isinstance(other, SECP256k1PublicKey) and self.public_key[:32] == other.public_key[:32]")
M("c09-block-eq-header-only", "C09", "R09.9", DT, "            self.header == other.header and\n            # for valid blocks comparing transactions is superfluous but we don't make that assumption here\n            self.transactions == other.transactions\n", "            self.header == other.header\n")
M("c09-response-looks-unsolicited", "C09", "R09.9", RP, "            in_response_to, context = prev_header.id, prev_header.context", "            in_response_to, context = 0, prev_header.context")
M("c10-getdata-reply-unsolicited", "C10", "R09.9", RP, "        self.send_message(data_message, prev_header=header)", "        self.send_message(data_message)")
M("c10-remove-inventory-wrong-test", "C10", "R10.7", RP, "                if item.hash == hash:\n                    del msg_state.message.items[j]\n                    break", "                if item.hash != hash:\n                    del msg_state.message.items[j]\n                    break")
M("c19-ctor-swaps-fields", "C19", "R19.7", RP, "        super().__init__(host, port, direction, last_connection_attempt, ban_score)\n\n    def is_time_to_connect", "        super().__init__(host, port, direction, ban_score, last_connection_attempt)\n\n    def is_time_to_connect")
M("c04-ctor-heads-swapped", "C04", "R04.7", CS, "        self.heads = heads  # hash=>block ... but restricted to blocks w/o children.", "        self.heads = block_by_hash  # hash=>block ... but restricted to blocks w/o children.")
M("c01-output-eq-value-only", "C01", "R01.12", DT, "        return self.value == other.value and self.public_key == other.public_key", "        return self.value == other.value")
M("c17-proof-gt", "C17", "R17.4", MT, "    if index_of_interest >= merkle_node.children[1].index:", "    if index_of_interest > merkle_node.children[1].index:")
M("c17-proof-order-lost", "C17", "R17.4", MT, "        reconstruct = lambda ot, rec: (rec, ot) # noqa", "        reconstruct = lambda ot, rec: (ot, rec) # noqa")
M("c17-proof-sibling-not-hashed", "C17", "R17.4", MT, "    simplified_other = MerkleNode(other.index, (), other.hash())", "    simplified_other = MerkleNode(other.index, (), other.value)")

# ----------------------------------------------------------------------------------------------- rules added after the second seed round
M("c10-send-skips-a-byte", "C10", "R10.8", RP, "        self.send_buffer = self.send_buffer[sent:]", "        self.send_buffer = self.send_buffer[sent + 1:]")
M("c10-send-lifo", "C10", "R10.8", RP, "                self.send_buffer = self.send_backlog.pop(0)\n                self.handle_can_send(sock)", "                self.send_buffer = self.send_backlog.pop()\n                self.handle_can_send(sock)")
M("c10-frame-length-of-message-only", "C10", "R10.8", RP, "        self.send_backlog.append((MAGIC + struct.pack(b\">I\", len(data)) + data))", "        self.send_backlog.append((MAGIC + struct.pack(b\">I\", len(message.serialize())) + data))")
M("c20-select-unbounded", "C20", "R20.8", LP, "        events = self.selector.select(timeout=1)", "        events = self.selector.select()")
M("c20-loop-extra-exit", "C20", "R20.8", LP, "                self.handle_selector_events()\n", "                self.handle_selector_events()\n                if not self.network_manager.connected_peers and not self.network_manager.disconnected_peers:\n                    break\n")
M("c20-listening-only", "C20", "R20.8", LP, "            if key.data is LISTENING_SOCKET:\n                self.handle_incoming_connection(key.fileobj)  # type: ignore\n            else:\n                self.handle_remote_peer_selector_event(key, mask)", "            if key.data is LISTENING_SOCKET:\n                self.handle_incoming_connection(key.fileobj)  # type: ignore\n            elif mask & selectors.EVENT_READ:\n                self.handle_remote_peer_selector_event(key, mask)")
M("c18-horizon-typo", "C18", "R18.7", "skepticoin/cheating.py", "    163000  : '0004ffae52a8f42088d3ccc24f0f04b11489666329c0d6321ebaf0c3b9cd5140',\n}", "    1630000 : '0004ffae52a8f42088d3ccc24f0f04b11489666329c0d6321ebaf0c3b9cd5140',\n}")
M("c08-without-rowid", "C08", "R08.8", BS, "                block_hash blob REFERENCES chain(block_hash)\n            )''')", "                block_hash blob REFERENCES chain(block_hash)\n            ) WITHOUT ROWID''')")
M("c05-clock-clamped", "C05", "R05.2", CS, "        validate_block_by_itself(block, current_timestamp)", "        validate_block_by_itself(block, max(current_timestamp, self.head().timestamp) if self.current_chain_hash else current_timestamp)")
M("c11-recv-loop", "C11", "P8", LP, "                recv_data = sock.recv(1024)\n\n                if recv_data:\n                    remote_peer.handle_receive_data(recv_data)", "                recv_data = sock.recv(1024)\n                while len(recv_data) == 1024:\n                    remote_peer.handle_receive_data(recv_data)\n                    recv_data = sock.recv(1024)\n\n                if recv_data:\n                    remote_peer.handle_receive_data(recv_data)")
M("c11-recv-huge", "C11", "P8", LP, "                recv_data = sock.recv(1024)", "                recv_data = sock.recv(1024 * 1024)")
M("c14-shared-default-set", "C14", "R14.5", WAL, "        public_key_annotations: Dict[bytes, str],\n    ):", "        public_key_annotations: Dict[bytes, str],\n        spent: Set[OutputReference] = set(),\n    ):", WAL, "        ] = set()  # TODO save to disk too at some point.", "        ] = spent  # TODO save to disk too at some point.")
M("c15-giveback-saved", "C15", "R15.6", "skepticoin/mining.py", "            self.wallet.restore_annotated_public_key(self.public_key, \"reserved for potentially mined block\")\n", "            self.wallet.restore_annotated_public_key(self.public_key, \"reserved for potentially mined block\")\n            save_wallet(self.wallet)\n")
M("c19-announcement-overwrites", "C19", "R19.8", RP, "            elif key not in nm.connected_peers:\n                nm.disconnected_peers[key] = DisconnectedRemotePeer(host, announced_peer.port, OUTGOING, None,", "            if key not in nm.connected_peers:\n                nm.disconnected_peers[key] = DisconnectedRemotePeer(host, announced_peer.port, OUTGOING, None,")
M("c20-connect-raises", "C20", "R20.7", LP, "        sock.connect_ex(server_addr)", "        try:\n            sock.connect(server_addr)\n        except BlockingIOError:\n            pass")
M("c20-startup-unvalidated", "C20", "R13.6", "skepticoin/networking/threading.py", "        self.local_peer.chain_manager.set_coinstate(coinstate)", "        self.local_peer.chain_manager.set_coinstate(coinstate, validated=False)")
M("c09-buffering-flushes", "C09", "R09.5", BS, "            self.write_buffer.append(block)\n", "            self.write_buffer.append(block)\n            if len(self.write_buffer) > 100:\n                self.write_blocks_to_disk(self.write_buffer)\n                self.write_buffer.clear()\n")
M("c03-inplace-reference-list", "C03", "R03.8", WAL, "            newly_spent_outputs.append(output_reference)\n", "            newly_spent_outputs.append(output_reference)\n            coinstate.at_head.public_key_balances[SECP256k1PublicKey(public_key)].output_references.sort()\n")
M("c08-header-version-not-restored", "C08", "R08.9", "skepticoin/datatypes.py", "    def __init__(self, summary: BlockSummary, pow_evidence: PowEvidence):\n        self.version = 0", "    def __init__(self, summary: BlockSummary, pow_evidence: PowEvidence, version: int = 0):\n        self.version = version")
M("c12-broadcast-try-outside-loop", "C12", "R09.8", MGR, "        for peer in self.get_active_peers():\n            try:\n                # try/except b/c .send_message might try to set the selector for a just-closed sock to writing\n                peer.send_message(message)\n            except (ValueError, KeyError) as e:", "        for peer in self.get_active_peers():\n            try:\n                # try/except b/c .send_message might try to set the selector for a just-closed sock to writing\n                peer.send_message(message)\n            except (KeyError) as e:")

# ----------------------------------------------------------------------------------------------- rules added after the third seed round
M("c10-no-write-readiness", "C10", "R10.8", RP, "            self.local_peer.selector.modify(self.sock, selectors.EVENT_READ | selectors.EVENT_WRITE, data=self)", "            self.local_peer.selector.modify(self.sock, selectors.EVENT_READ, data=self)")
M("c10-msg-id-from-zero", "C10", "R10.8", RP, "        self._next_msg_id += 1\n        return self._next_msg_id", "        msg_id = self._next_msg_id\n        self._next_msg_id += 1\n        return msg_id")
M("c02-generator-consumed-by-log", "C02", "RX.3", CONS, "    total_output_value = sum(output.value for output in transaction.outputs)\n",
  "    output_values = (output.value for output in transaction.outputs)\n    if len(transaction.inputs) > 100:\n        print(list(output_values))\n    total_output_value = sum(output_values)\n")
M("c10-max-of-known-heights", "C10", "RX.4", RP, "        coinstate = self.local_peer.chain_manager.coinstate\n        self.local_peer.logger.debug(\"%15s ... at coinstate %s\" % (self.host, coinstate))\n",
  "        coinstate = self.local_peer.chain_manager.coinstate\n        self.local_peer.logger.debug(\"%15s ... at coinstate %s\" % (self.host, coinstate))\n        known = [coinstate.block_by_hash[h].height for h in message.potential_start_hashes if h in coinstate.block_by_hash]\n        self.local_peer.logger.debug(\"best common height %d\" % max(known))\n")
M("c16-subsidy-era-window", "C16", "R16.4", CONS, "def get_block_subsidy(height: int) -> int:\n    halvings = height // SUBSIDY_HALVING_INTERVAL\n",
  "_last_halvings = 0\n\n\ndef get_block_subsidy(height: int) -> int:\n    global _last_halvings\n    halvings = max(_last_halvings, height // SUBSIDY_HALVING_INTERVAL)\n    _last_halvings = halvings\n")
M("c16-subsidy-refuses-high-heights", "C16", "R16.4", CONS, "def get_block_subsidy(height: int) -> int:\n    halvings = height // SUBSIDY_HALVING_INTERVAL\n",
  "def get_block_subsidy(height: int) -> int:\n    if height > 2 ** 31 - 1:\n        raise ValueError(\"height out of range\")\n    halvings = height // SUBSIDY_HALVING_INTERVAL\n")
M("c20-step-decodes-user-agent", "C20", "R20.10", MGR, "        self._sanity_check()\n\n        for disconnected_peer in list(self.disconnected_peers.values()):\n",
  "        self._sanity_check()\n        agents = sorted(p.user_agent.decode(\"utf-8\") for p in self.get_active_peers())\n        self.local_peer.logger.debug(\"agents: %s\" % agents)\n\n        for disconnected_peer in list(self.disconnected_peers.values()):\n")
M("c08-rows-sorted-before-insert", "C08", "R08.8", BS, "        cur = self.connection.cursor()\n        cur.execute('BEGIN TRANSACTION')\n",
  "        transactions_param.sort(key=lambda row: row[0])\n        cur = self.connection.cursor()\n        cur.execute('BEGIN TRANSACTION')\n")
M("c07-block-serialize-memo", "C07", "R07.8", "skepticoin/datatypes.py", "    def hash(self) -> bytes:\n        return self.cached_hash or self.header.hash()\n",
  "    def hash(self) -> bytes:\n        return self.cached_hash or self.header.hash()\n\n    def serialize(self) -> bytes:\n        if getattr(self, \"_bytes\", None) is None:\n            self._bytes = super().serialize()\n        return self._bytes\n")
M("c15-startup-loads-backup-copy", "C15", "R15.8", "skepticoin/scripts/utils.py", "        wallet = Wallet.load(open(\"wallet.json\", \"r\"))\n",
  "        wallet = Wallet.load(open(\"wallet.json.bak\" if os.path.isfile(\"wallet.json.bak\") else \"wallet.json\", \"r\"))\n")
M("c15-save-to-given-name-sites-differ", "C15", "R15.4", WAL, "def save_wallet(wallet: Wallet) -> None:", "def save_wallet(wallet: Wallet, filename: str = \"wallet.json\") -> None:",
  WAL, "    os.replace(\"wallet.json.new\", \"wallet.json\")", "    os.replace(\"wallet.json.new\", filename)",
  "skepticoin/scripts/receive.py", "    save_wallet(wallet)\n", "    save_wallet(wallet, \"wallet-receive.json\")\n")
M("c15-startup-gives-keys-back", "C15", "R15.8", "skepticoin/scripts/utils.py", "        wallet = Wallet.load(open(\"wallet.json\", \"r\"))\n", "        wallet = Wallet.load(open(\"wallet.json\", \"r\"))\n        for pk, note in list(wallet.public_key_annotations.items()):\n            if note == \"reserved for potentially mined block\":\n                wallet.restore_annotated_public_key(pk, note)\n")
M("c18-skip-misses-checkpoints", "C18", "R18.8", NP, "IBD_VALIDATION_SKIP = 10000", "IBD_VALIDATION_SKIP = 10080")
M("c15-balance-misprinted", "C15", "R15.7", "skepticoin/scripts/balance.py", "        wallet.get_balance(coinstate) / SASHIMI_PER_COIN, \"SKEPTI at h. %s,\" % coinstate.head().height,", "        wallet.get_balance(coinstate) // SASHIMI_PER_COIN, \"SKEPTI at h. %s,\" % coinstate.head().height,")
M("c20-selector-cap-raised", "C20", "R20.9", LP, "    \"linux\": 512,", "    \"linux\": 4096,")
M("c09-greeting-not-always-marked", "C09", "R09.10", RP, "        self.hello_received = True\n", "        if message.my_port != 0:\n            self.hello_received = True\n")
M("c04-deep-fork-dropped", "C09", "R09.7", RP, "            try:\n                validate_block_by_itself(block, int(time()))", "            if block.height + 100 < coinstate_prior.head().height:\n                return\n\n            try:\n                validate_block_by_itself(block, int(time()))")
M("c12-extra-reward-output-check", "C12", "RX.2", CONS, "    if len(transaction.inputs[0].signature.signature) > MAX_COINBASE_RANDOM_DATA_SIZE:\n        raise ValidateTransactionError(\"Random data > MAX_COINBASE_RANDOM_DATA_SIZE\")\n", "    if len(transaction.inputs[0].signature.signature) > MAX_COINBASE_RANDOM_DATA_SIZE:\n        raise ValidateTransactionError(\"Random data > MAX_COINBASE_RANDOM_DATA_SIZE\")\n\n    for output in transaction.outputs:\n        validate_sashimi_range(output.value)\n")
M("c10-peer-port-range", "C10", "RX.2", MSG, "    def __init__(self, last_seen_at: int, ip_address: IPv6Address, port: int):\n", "    def __init__(self, last_seen_at: int, ip_address: IPv6Address, port: int):\n        if not (0 < port <= 0xffff):\n            raise ValueError('Peer port %d is out of range.' % port)\n")
M("c13-validator-raises-base-class", "C13", "R13.7", CONS, "            raise ValidateTransactionError(\"input's output_reference does not exist as an unspent out\")", "            raise ValidationError(\"input's output_reference does not exist as an unspent out\")")
M("c12-worker-hashes-wrong-height", "C12", "R12.5", "skepticoin/mining.py", "                summary_hash = construct_summary_hash(summary, current_height)", "                summary_hash = construct_summary_hash(summary, current_height - 1)")
M("c12-nonce-stuck", "C12", "R12.5", "skepticoin/mining.py", "                nonce = (nonce + 1) % (1 << 32)", "                nonce = nonce % (1 << 32)")
M("c19-greeting-foreign-nonce", "C19", "R19.9", RP, "                [SupportedVersion(0)], ipv4_mapped, port_if_known, my_ip_address, my_port, self.local_peer.nonce,", "                [SupportedVersion(0)], ipv4_mapped, port_if_known, my_ip_address, my_port, random.randrange(pow(2, 32)),")


# ----------------------------------------------------------------------------------------------- defects inside canonicalised constructs
MP("x-helper-object-drops-per-value-check", "C02", "R02.4", "refactors_beyond/ri1-3", CONS,
   "    def add(self, value: int) -> None:\n        validate_sashimi_range(value)\n        self.total += value\n",
   "    def add(self, value: int) -> None:\n        self.total += value\n")
MP("x-helper-object-total-not-checked", "C02", "R02.4", "refactors_beyond/ri1-3", CONS,
   "    def validate(self) -> None:\n        validate_sashimi_range(self.total)\n", "    def validate(self) -> None:\n        pass\n")
MP("x-insert-batch-swaps-locator-columns", "C08", ["R08.1", "R08.3"], "refactors/ri4-1", BS,
   "        self.transaction_locator.append((transaction_hash, block_hash))", "        self.transaction_locator.append((block_hash, transaction_hash))")
MP("x-fused-generator-drops-backoff-test", "C19", "R19.3", "refactors/ri3-1", MGR,
   "            if (disconnected_peer.direction == OUTGOING and\n                self._peer_address(disconnected_peer) not in self.my_addresses and\n                    disconnected_peer.is_time_to_connect(current_time)):",
   "            if (disconnected_peer.direction == OUTGOING and\n                self._peer_address(disconnected_peer) not in self.my_addresses):")
MP("x-memo-hash-of-reversed-children", "C17", "R17.3", "features/fg1-2", "skepticoin/merkletree.py",
   "            self._hash = sha256d(b''.join(c.hash() for c in self._children))", "            self._hash = sha256d(b''.join(c.hash() for c in reversed(self._children)))")
MP("x-takewhile-predicate-ignores-stop", "C20", "R20.8", "refactors/ri3-4", "skepticoin/networking/local_peer.py",
   "        return self.running\n", "        return True\n")

# canonicality decided by length (R07.6, second accepted form): the arithmetic it relies on is checked with it
SER = "skepticoin/serialization.py"
MP("x-vlq-by-length-counter-not-advanced", "C07", "R07.6", "features/ho6-4", SER,
   "        consumed += 1\n", "        consumed = 1\n")
MP("x-vlq-by-length-guard-one-sided", "C07", "R07.6", "features/ho6-4", SER,
   "    if consumed != _vlq_length(result):", "    if consumed < _vlq_length(result):")
MP("x-vlq-by-length-wrong-radix", "C07", ["R07.6", "R18.5"], "features/ho6-4", SER,
   "        result *= 128\n", "        result *= 256\n")
MP("x-vlq-by-length-stops-late", "C07", "R07.6", "features/ho6-4", SER,
   "        if b < 128:\n            break\n", "        if b <= 128:\n            break\n")
MP("x-vlq-by-length-other-length", "C07", "R07.6", "features/ho6-4", SER,
   "    return (i.bit_length() // 7) + 1\n", "    return (i.bit_length() // 8) + 1\n")

# the receive loop over a bytearray (`del buf[:k]` read as `buf = buf[k:]`): defects inside it are still defects
MP("x-bytearray-receiver-drops-three-of-magic", "C11", ["P3", "P6", "P7"], "features/hm3-5", RP,
   "                self.magic_read = True\n                del self.buffer[:4]\n",
   "                self.magic_read = True\n                del self.buffer[:3]\n")
MP("x-bytearray-receiver-waits-one-byte-more", "C11", ["P3", "P4", "P5"], "features/hm3-5", RP,
   "            if self.len is None or self.len > len(self.buffer):", "            if self.len is None or self.len >= len(self.buffer):")
MP("x-bytearray-receiver-magic-not-refused", "C11", ["P7", "RX.2"], "features/hm3-5", RP,
   "                if self.buffer[:4] != MAGIC:\n                    raise Exception(\"Insufficient magic\")\n", "")
MP("x-bytearray-receiver-frame-not-dropped", "C11", ["P5", "P3", "P6"], "features/hm3-5", RP,
   "            del self.buffer[:self.len]\n", "")

# ----------------------------------------------------------------------------------------------- round-5 rules
M("x-late-bound-locator-rows", "C08", "RX.3", BS,
  "            for transaction in block.transactions:\n",
  "            locator_rows.append((sha256d(t.serialize()), block_hash) for t in block.transactions)\n            for transaction in block.transactions:\n",
  BS, "        blocks_param = []\n", "        blocks_param = []\n        locator_rows: list = []\n")
M("x-checks-as-late-bound-lambdas", "C01", "RX.3", CONS,
  "    for transaction in block.transactions[1:]:\n        validate_non_coinbase_transaction_by_itself(transaction)\n",
  "    checks = [lambda: validate_non_coinbase_transaction_by_itself(transaction) for transaction in block.transactions[1:]]\n    for check in checks:\n        check()\n")
M("x-transaction-copied-with-its-id", "C07", "R07.9", DT,
  "    def signable_equivalent(self) -> Transaction:\n", "    def with_outputs(self, outputs: List[Output]) -> Transaction:\n        import copy\n        t = copy.copy(self)\n        t.outputs = outputs\n        return t\n\n    def signable_equivalent(self) -> Transaction:\n")
M("x-inventory-state-in-class-body", "C20", "R20.11", RP,
  "class MessageReceiver:\n    def __init__(self, peer: ConnectedRemotePeer):\n        self.peer = peer\n",
  "class MessageReceiver:\n    seen_frames: list = []\n\n    def __init__(self, peer: ConnectedRemotePeer):\n        self.peer = peer\n        self.seen_frames.append(0)\n")
M("x-address-shown-before-save-via-context-manager", "C15", "R15.3", "skepticoin/scripts/receive.py",
  "    public_key = wallet.get_annotated_public_key(args.annotation)\n    save_wallet(wallet)\n",
  "    with _saving(wallet):\n        public_key = wallet.get_annotated_public_key(args.annotation)\n        print(\"SKE\" + human(public_key) + \"PTI\")\n",
  "skepticoin/scripts/receive.py", "def main() -> None:\n", "from contextlib import contextmanager\n\n\n@contextmanager\ndef _saving(wallet):  # type: ignore\n    yield wallet\n    save_wallet(wallet)\n\n\ndef main() -> None:\n")

# ----------------------------------------------------------------------------------------------- held-out round rules
M("x-inventory-pruned-while-iterated", "C10", "RX.3", RP,
  "                for item in msg_state.message.items:\n",
  "                for item in msg_state.message.items:\n                    if item.hash in self.local_peer.chain_manager.coinstate.block_by_hash:\n                        msg_state.message.items.remove(item)\n                        continue\n")
M("x-catch-all-handler-looks-up-peer", "C20", "R20.12", "skepticoin/networking/local_peer.py",
  "            self.disconnect(remote_peer, \"Exception\")\n",
  "            self.disconnect(remote_peer, \"Exception\")\n            self.network_manager.disconnected_peers[(remote_peer.host, remote_peer.port, remote_peer.direction)].ban_score += 1\n")
# decorators that carry behaviour are expanded at load time (engine/deccanon.py): what they do is seen, not skipped
M("x-validator-behind-a-swallowing-decorator", "C09", ["R09.flow", "R17.1", "R01.7", "R01.1", "RX.2", "R09.3", "R05.1", "R05.2"], CONS,
  "def validate_block_by_itself(block: Block, current_timestamp: int) -> None:",
  "def _lenient(function):  # type: ignore\n    def wrapper(*args, **kwargs):  # type: ignore\n        try:\n            return function(*args, **kwargs)\n"
  "        except ValidateBlockError:\n            return None\n    return wrapper\n\n\n"
  "@_lenient\ndef validate_block_by_itself(block: Block, current_timestamp: int) -> None:")
M("x-balance-memoised-per-wallet-object", "C15", "RX.5", "skepticoin/wallet.py",
  "    def get_balance(self, coinstate: CoinState) -> int:", "    @lru_cache(maxsize=8)\n    def get_balance(self, coinstate: CoinState) -> int:",
  "skepticoin/wallet.py", "import json\n", "import json\nfrom functools import lru_cache\n")
M("x-lock-decorator-without-the-lock", "C13", ["R13.3", "R13.1", "R12.5"], MGR,
  "class ChainManager(Manager):", "def _locked(method):  # type: ignore\n    def wrapper(self, *args, **kwargs):  # type: ignore\n        return method(self, *args, **kwargs)\n    return wrapper\n\n\nclass ChainManager(Manager):",
  MGR, "    def set_coinstate(self, coinstate: CoinState, validated: bool = True) -> None:\n        with self.lock:\n",
  "    @_locked\n    def set_coinstate(self, coinstate: CoinState, validated: bool = True) -> None:\n        if True:\n")
# D6 (fixed in 2251120): the relay handler links a block's height to its parent's before applying it
M("x-relay-height-link-dropped", "C20", "R20.14", RP,
  "            if block.height != previous_block.height + 1:\n", "            if False:\n")
M("x-relay-height-link-off-by-one", "C20", "R20.14", RP,
  "            if block.height != previous_block.height + 1:\n", "            if block.height < previous_block.height + 1:\n")
M("x-relay-height-link-after-apply", "C20", ["R20.14", "R09.3", "R09.4", "R09.7"], RP,
  "            coinstate_changed = coinstate_prior.add_block_no_validation(block)\n            self.local_peer.disk_interface.save_block(block)\n",
  "            coinstate_changed = coinstate_prior.add_block_no_validation(block)\n            self.local_peer.disk_interface.save_block(block)\n"
  "            if block.height != previous_block.height + 1:\n                return\n",
  RP, "            if block.height != previous_block.height + 1:\n                # Checked here", "            if False:\n                # Checked here")
# the managers' own steps run outside every per-connection handler (R20.15)
M("x-step-picks-from-empty-candidates", "C20", "R20.15", MGR,
  "        if len(ibd_candidates) == 0:\n            return\n", "")
M("x-step-looks-up-peer-of-inventory", "C20", "R20.15", MGR,
  "        remote_peer = random.choice(ibd_candidates)\n",
  "        remote_peer = random.choice(ibd_candidates)\n        self.local_peer.logger.info(\"asking %s, previously %s\" % (remote_peer.host, self.actively_fetching_blocks_from_peers[-1][1].host))\n")
M("x-locator-hashes-by-index-of-heads", "C20", ["R20.15", "R10.5"], MGR,
  "        heights = get_recent_block_heights(self.coinstate.head().height)\n",
  "        heights = get_recent_block_heights(self.coinstate.head().height)\n        tip = list(self.coinstate.heads.values())[len(heights)]\n        assert tip\n")
M("x-set-coinstate-default-flipped", "C01", "R13.6", MGR,
  "    def set_coinstate(self, coinstate: CoinState, validated: bool = True) -> None:", "    def set_coinstate(self, coinstate: CoinState, validated: bool = False) -> None:")
